#!/usr/bin/env python3
"""prints the prompt given to a fresh sub-agent asked for a property-breaking change (only the property text + a scratch worktree)"""
import json, sys
pid, wt, n = sys.argv[1], sys.argv[2], (sys.argv[3] if len(sys.argv) > 3 else '2')
start = int(sys.argv[4]) if len(sys.argv) > 4 else 1
import glob, os, re
earlier = []
for d in sorted(glob.glob('/verif/seeded/%s-*' % pid)):
    try:
        m = json.load(open(os.path.join(d, 'meta.json')))
        earlier.append('- ' + re.sub(r'\s+', ' ', (m.get('summary') or m.get('breaks') or ''))[:300])
    except Exception:
        pass
p = [json.loads(l) for l in open('/verif/properties.jsonl') if json.loads(l)['id'] == pid][0]
print(f"""You are helping test a verification framework by seeding realistic bugs. You work ONLY inside the scratch git worktree {wt} (a checkout of the Rust project aws-cloudformation/cloudformation-guard, "cfn-guard": a policy-as-code DSL with a nom parser and an evaluator checking JSON/YAML documents against rules). Never read or touch /repo or /verif. The sandbox has no network; build with `cargo build --offline -j4 -p cfn-guard --bin cfn-guard` from {wt} (a warm target dir is already there; the binary is {wt}/target/debug/cfn-guard), and run the test suite with `cargo nextest run --workspace --no-fail-fast --offline --test-threads 4` (expect exactly "638 passed" on the clean tree; allow up to ~10 minutes).

Here is a semantic property of the tool that should hold for ALL inputs:

ID: {p['id']} — {p['title']}
STATEMENT: {p['statement']}
QUANTIFIER: {p['quantifier']['text']}
CODE ANCHORS: {json.dumps(p.get('anchors', {}).get('mechanism', []))}

Your task: produce {n} DIFFERENT source changes (each independent, each a small patch against the clean worktree) to the Rust code under {wt}/guard/src that each BREAK this property, while the project still compiles and the existing test suite still shows 638 passed (no test may newly fail). The changes should look like plausible mistakes or "refactors" a developer could make, and must need something SPECIFIC to manifest - a particular unusual input, value shape, operator combination, multi-step sequence, ordering of files/rules, a cache populated in a particular order, or two cooperating sites that each look fine alone - NOT something ordinary everyday use (or the README examples) would expose at once. Do not touch tests, do not touch the file guard/src/verif_hooks.rs, and do not add cfg flags. Do not make the change depend on magic strings/identifiers that only your demo uses (no "if key == \\"zzz\\"" backdoors): the wrong behaviour must follow from a genuine logic error.

For each change k = {start}..{start + int(n) - 1} write into /tmp/seeded-out/{pid}-k/ :
  - patch.diff : `git diff` of the change against the clean worktree (must apply with `git apply` at the worktree root)
  - demo.sh : a bash script taking the path of the cfn-guard binary as $1; it writes whatever rule/data files it needs into a fresh `mktemp -d` directory, runs the binary, and exits 0 when the behaviour is CORRECT per the property (clean tree) and non-zero when the property is violated (patched tree). It must be deterministic.
  - meta.json : {{"property": "{pid}", "summary": "...what was changed...", "needs": "...what specific input/sequence is needed for it to manifest...", "files": [...], "ran": "...commands you ran and their results (clean demo exit, patched demo exit, test summary line)..."}}

{('Changes of this kind were already made by others; yours must be DIFFERENT in mechanism and in the code they touch:' + chr(10) + chr(10).join(earlier) + chr(10) + chr(10)) if (earlier and start > 1) else ''}Procedure for each change: edit, build, run demo.sh on the patched binary (must fail), run the full test suite (must still be 638 passed), save `git diff > patch.diff`, then `git checkout -- .` to restore the clean tree, rebuild, run demo.sh on the clean binary (must exit 0). Leave the worktree clean (`git status` shows no changes) when you finish. Report briefly what you made and the confirmations you observed. If a candidate breaks an existing test, discard it and try a subtler one.""")
