#!/bin/sh
for N in "$@"; do git -C /repo worktree remove --force /tmp/wt/$N; rm -rf /tmp/wt/$N; done
git -C /repo worktree prune
