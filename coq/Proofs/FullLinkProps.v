(* FullLinkProps.v — the whole-grammar parser (Model/FullParse.v) reads the filter-free fragment exactly as the proved layers do: a
   query that QueryParse.access accepts, and an access clause that ClauseParse.clause accepts, are read by FullParse to the tree of
   the same query / clause.  So the spelling and negation theorems of the lower layers are theorems about the whole-grammar parser. *)
From Coq Require Import Lia.
From GV.Model Require Import Ast.
From GV.Model Require Import ValueParse QueryParse OpParse ClauseParse CnfParse FilterParse ClauseFParse LetParse CallParse FullParse.
From GV.Proofs Require Import LexProps ValueParseProps ValueSpellProps QueryParseProps QuerySpellProps ClauseParseProps ClauseSpellProps CnfParseProps CnfSpellProps FilterParseProps CallExtendProps.
Local Open Scope string_scope.
Local Open Scope nat_scope.

Section Link.
Variable rv : string -> bool.
Variable fname : string.

Definition query_tree (q : access_query) : tree := tquery (aq_all q) (map part_tree (aq_query q)).

Lemma xpart_extends k s : part s <> PUnk -> xpart rv (S k) s = pmap part_tree (part s).
Proof.
  unfold part. cbn [xpart]. destruct (dotted_property s) as [p r| | | |] eqn:E; cbn [palt pmap]; try reflexivity.
  unfold predicate_or_index. destruct (ws_char "[" s) as [s1|]; [|reflexivity]. intros H.
  rewrite !pmap_palt. cbn [pmap].
  destruct (all_indices_body s1); cbn [pmap palt] in *; try reflexivity.
  destruct (array_index_body s1); cbn [pmap palt] in *; try reflexivity.
  destruct (map_key_lookup_body s1); cbn [pmap palt] in *; try reflexivity. congruence.
Qed.

Lemma loop_parts_extends k : forall n acc s x, parts_loop n acc s = x -> x <> PUnk -> x <> POof ->
  forall m, n <= m -> loop_parts (xpart rv (S k)) m (map part_tree acc) s = pmap (map part_tree) x.
Proof.
  induction n as [|n IH]; intros acc s x H H1 H2 m L; [cbn in H; congruence|].
  destruct m as [|m]; [lia|]. cbn [parts_loop loop_parts] in *.
  destruct (part s) as [p r| | | |] eqn:E.
  - rewrite xpart_extends by (rewrite E; discriminate). rewrite E. cbn [pmap].
    replace (map part_tree acc ++ [part_tree p])%list with (map part_tree (acc ++ [p])) by (now rewrite map_app).
    apply IH; [exact H|exact H1|exact H2|lia].
  - rewrite xpart_extends by (rewrite E; discriminate). rewrite E. subst x. reflexivity.
  - rewrite xpart_extends by (rewrite E; discriminate). rewrite E. subst x. reflexivity.
  - congruence.
  - congruence.
Qed.

Lemma after_var_tree f parts : after_var f (map part_tree parts) = map part_tree (after_variable f parts).
Proof.
  unfold after_var, after_variable. destruct (part_is_variable f); [|reflexivity].
  destruct parts as [|p ps]; [reflexivity|]. destruct p; reflexivity.
Qed.

Lemma xaccess_S n s : xaccess rv (S n) s =
  let '(all, s1) := match some_keyword s with Some r => (false, r) | None => (true, s) end in
  let first : pres query_part :=
    match this_keyword s1 with
    | Some r => POk QThis r
    | None => pmap QKey (palt (var_access s1) (property_name s1))
    end in
  pbind first (fun f r =>
    match xpart rv n r with
    | POk p r1 => pbind (loop_parts (xpart rv n) n [p] r1) (fun parts r' => POk (tquery all (part_tree f :: after_var f parts)) r')
    | PErr => POk (tquery all [part_tree f]) r
    | PFail => PFail
    | PUnk => PUnk
    | POof => POof
    end).
Proof. reflexivity. Qed.

Theorem xaccess_extends : forall n s x, access n s = x -> x <> PUnk -> x <> POof ->
  forall m, n <= m -> xaccess rv (S (S m)) s = pmap query_tree x.
Proof.
  intros n s x H H1 H2 m L. unfold access in H. rewrite xaccess_S.
  destruct (match some_keyword s with Some r => (false, r) | None => (true, s) end) as [all s1].
  destruct (match this_keyword s1 with Some r => POk QThis r | None => pmap QKey (palt (var_access s1) (property_name s1)) end) as [f r| | | |];
    cbn [pbind]; try (subst x; reflexivity).
  unfold dotted_access in H. destruct (part r) as [p r1| | | |] eqn:E; cbn [pmap] in H.
  - rewrite xpart_extends by (rewrite E; discriminate). rewrite E. cbn [pmap].
    destruct (parts_loop n [p] r1) as [parts r'| | | |] eqn:El.
    + pose proof (loop_parts_extends m n [p] r1 _ El ltac:(discriminate) ltac:(discriminate) (S m) ltac:(lia)) as E2. cbn [map pmap] in E2. rewrite E2.
      cbn [pbind]. subst x. cbn [pmap]. unfold query_tree. cbn [aq_query aq_all map]. now rewrite after_var_tree.
    + exfalso. now apply parts_loop_not_err in El.
    + pose proof (loop_parts_extends m n [p] r1 _ El ltac:(discriminate) ltac:(discriminate) (S m) ltac:(lia)) as E2. cbn [map pmap] in E2. rewrite E2. subst x. reflexivity.
    + subst x. cbn in H1. congruence.
    + subst x. cbn in H2. congruence.
  - rewrite xpart_extends by (rewrite E; discriminate). rewrite E. subst x. reflexivity.
  - rewrite xpart_extends by (rewrite E; discriminate). rewrite E. subst x. reflexivity.
  - subst x. cbn in H1. congruence.
  - subst x. cbn in H2. congruence.
Qed.

(* the clause, as a tree *)
Definition rhs_tree (w : rhs) : tree := match w with RLit l => T "Lit" [lit_tree l] | RQuery q => T "Query" [query_tree q] end.
Definition clause_tree (c : pclause) : tree :=
  T "Clause" [tbool (pc_neg c); query_tree (pc_query c); tcmp (pc_cmp c); topt (option_map rhs_tree (pc_rhs c)); tostr (pc_msg c)].

Lemma no_function_here k t : function_like t = PErr -> xfunction rv (S (S k)) t = PErr.
Proof.
  unfold function_like. cbn [xfunction xcall_expr]. destruct (var_name t) as [name r| | | |]; try discriminate; cbn [pbind]; [|reflexivity].
  destruct r as [|c r]; [reflexivity|]. cbn [expect]. destruct (Ascii.eqb c "("); [discriminate|reflexivity].
Qed.

Lemma xaccess_clause_S n s : xaccess_clause rv (S n) s =
  let s0 := skip_ws_comments s in
  let '(neg, s1) := match not_kw s0 with Some r => (true, r) | None => (false, s0) end in
  pbind (xaccess rv n s1) (fun q r1 =>
    pbind (value_cmp (skip_ws_comments r1)) (fun c r2 =>
      if is_unary (fst c) then pmap (fun m => T "Clause" [tbool neg; q; tcmp c; topt None; tostr m]) (opt_message r2)
      else pbind (pcut (xvalue rv n r2)) (fun w r3 => pmap (fun m => T "Clause" [tbool neg; q; tcmp c; topt (Some w); tostr m]) (opt_message r3)))).
Proof. reflexivity. Qed.

Lemma xvalue_S n s : xvalue rv (S n) s =
  let t := skip_ws_comments s in
  match parse_value rv n t with
  | POk l r => POk (T "Lit" [lit_tree l]) r
  | PErr =>
      match xfunction rv n t with
      | PErr => pmap (fun q => T "Query" [q]) (xaccess rv n t)
      | other => other
      end
  | PFail => PFail
  | PUnk => PUnk
  | POof => POof
  end.
Proof. reflexivity. Qed.

Theorem xaccess_clause_extends : forall n s c r, clause rv n s = POk c r ->
  forall m, n <= m -> xaccess_clause rv (S (S (S (S m)))) s = POk (clause_tree c) r.
Proof.
  intros n s c r H m L. unfold clause in H. rewrite xaccess_clause_S. cbv zeta.
  destruct (match not_kw (skip_ws_comments s) with Some r0 => (true, r0) | None => (false, skip_ws_comments s) end) as [neg s1].
  destruct (access n s1) as [q r1| | | |] eqn:Ea; try discriminate.
  rewrite (xaccess_extends n s1 _ Ea ltac:(discriminate) ltac:(discriminate) (S m) ltac:(lia)). cbn [pmap pbind].
  destruct (value_cmp (skip_ws_comments r1)) as [cm r2| | | |]; try discriminate. cbn [pbind].
  destruct (is_unary (fst cm)).
  { unfold with_message in H. destruct (opt_message r2) as [msg r3| | | |]; try discriminate. cbn [pmap] in *. inversion H; subst. reflexivity. }
  rewrite xvalue_S. cbv zeta. rewrite parse_value_skip.
  destruct (parse_value rv n r2) as [l r3| | | |] eqn:Ep; try discriminate.
  - rewrite (parse_value_fuel_mono rv n (S (S m)) r2 _ ltac:(lia) Ep) by discriminate. cbn [pcut pbind].
    unfold with_message in H. destruct (opt_message r3) as [msg r4| | | |]; try discriminate. cbn [pmap] in *. inversion H; subst. reflexivity.
  - rewrite (parse_value_fuel_mono rv n (S (S m)) r2 _ ltac:(lia) Ep) by discriminate.
    destruct (function_like (skip_ws_comments r2)) eqn:Ef; try discriminate; [exfalso; eapply ClauseParseProps.function_like_not_ok; exact Ef|].
    rewrite (no_function_here m _ Ef).
    destruct (access n (skip_ws_comments r2)) as [q2 r3| | | |] eqn:Ea2; try discriminate.
    rewrite (xaccess_extends n _ _ Ea2 ltac:(discriminate) ltac:(discriminate) m L). cbn [pmap pcut pbind].
    unfold with_message in H. destruct (opt_message r3) as [msg r4| | | |]; try discriminate. cbn [pmap] in *. inversion H; subst. reflexivity.
Qed.

Lemma function_fails_alike k t : function_like t = PFail -> xfunction rv (S (S k)) t = PFail.
Proof.
  unfold function_like. cbn [xfunction xcall_expr]. destruct (var_name t) as [name r| | | |]; try discriminate; cbn [pbind]; [|reflexivity].
  destruct r as [|c r]; [discriminate|]. destruct (Ascii.eqb c "("); discriminate.
Qed.

(* the same for every answer: a recoverable error and a failure of the clause parser are the whole-grammar parser's too *)
Theorem xaccess_clause_extends_all : forall n s x, clause rv n s = x -> x <> PUnk -> x <> POof ->
  forall m, n <= m -> xaccess_clause rv (S (S (S (S m)))) s = pmap clause_tree x.
Proof.
  intros n s x H H1 H2 m L. unfold clause in H. rewrite xaccess_clause_S. cbv zeta.
  destruct (match not_kw (skip_ws_comments s) with Some r0 => (true, r0) | None => (false, skip_ws_comments s) end) as [neg s1].
  destruct (access n s1) as [q r1| | | |] eqn:Ea; cbn [pmap] in H; try (subst x; congruence);
    rewrite (xaccess_extends n s1 _ Ea ltac:(discriminate) ltac:(discriminate) (S m) ltac:(lia)); cbn [pmap pbind]; try (subst x; reflexivity).
  destruct (value_cmp (skip_ws_comments r1)) as [cm r2| | | |]; cbn [pmap pbind] in *; try (subst x; (reflexivity || congruence)).
  destruct (is_unary (fst cm)).
  { subst x. unfold with_message. destruct (opt_message r2); reflexivity. }
  rewrite xvalue_S. cbv zeta. rewrite parse_value_skip.
  destruct (parse_value rv n r2) as [l r3| | | |] eqn:Ep; cbn [pmap] in H; try (subst x; congruence);
    rewrite (parse_value_fuel_mono rv n (S (S m)) r2 _ ltac:(lia) Ep) by discriminate; cbn [pcut pbind]; try (subst x; reflexivity).
  - subst x. unfold with_message. destruct (opt_message r3); reflexivity.
  - destruct (function_like (skip_ws_comments r2)) eqn:Ef; cbn [pmap] in H; try (subst x; congruence).
    + exfalso. eapply ClauseParseProps.function_like_not_ok. exact Ef.
    + rewrite (no_function_here m _ Ef).
      destruct (access n (skip_ws_comments r2)) as [q2 r3| | | |] eqn:Ea2; cbn [pmap] in H; try (subst x; congruence);
        rewrite (xaccess_extends n _ _ Ea2 ltac:(discriminate) ltac:(discriminate) m L); cbn [pmap pcut pbind]; try (subst x; reflexivity).
      subst x. unfold with_message. destruct (opt_message r3); reflexivity.
    + rewrite (function_fails_alike m _ Ef). cbn [pcut pbind]. subst x. reflexivity.
Qed.

(* every concrete spelling of an access clause, read by the whole-grammar parser, is the tree of that clause *)
Corollary whole_grammar_reads_every_clause_spelling : forall c o rest, cwf rv c o -> cfollow rv c rest ->
  xaccess_clause rv (S (S (S (S (S (len (crender rv c +++ rest))))))) (crender rv c +++ rest) =
  POk (clause_tree (cdenote c o)) (match cl_msg c with Some _ => rest | None => skip_ws_comments rest end).
Proof.
  intros c o rest W F. pose proof (clause_spelling_parses rv c o rest W F) as H. unfold clause_top in H.
  apply (xaccess_clause_extends _ _ _ _ H). lia.
Qed.

(* and every spelling of a filter-free query *)
Corollary whole_grammar_reads_every_query_spelling : forall c rest, qwf c -> query_end rest ->
  xaccess rv (S (S (access_fuel (qrender c +++ rest)))) (qrender c +++ rest) = POk (query_tree (qdenote c)) rest.
Proof.
  intros c rest W E. pose proof (query_spelling_parses c rest W E) as H. unfold access_top in H.
  now rewrite (xaccess_extends _ _ _ H ltac:(discriminate) ltac:(discriminate) _ (le_n _)).
Qed.

(* in particular the negation in front of it is the first thing recorded *)
Corollary whole_grammar_records_the_negation : forall c o rest, cwf rv c o -> cfollow rv c rest ->
  exists kids r, xaccess_clause rv (S (S (S (S (S (len (crender rv c +++ rest))))))) (crender rv c +++ rest) =
                 POk (T "Clause" (tbool (neg_flag (cl_neg c)) :: kids)) r.
Proof.
  intros c o rest W F. eexists. eexists. rewrite (whole_grammar_reads_every_clause_spelling c o rest W F). unfold clause_tree, cdenote. cbn [pc_neg]. reflexivity.
Qed.

End Link.
