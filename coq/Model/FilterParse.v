(* FilterParse.v — queries WITH filters, one level deep: `access` of rules/parser.rs where a bracket may also be a keys filter
   `[ name | keys == value ]` (map_keys_match, 810-845) or a filter `[ name | clauses ]` (predicate_filter_clauses, 724-730: the
   lines of or-joined clauses of CnfParse, each an access clause of ClauseParse).  The clauses inside a filter are read with the
   filter-free parsers, so a filter inside a filter, and inside a filter a when block, a block clause or a parameterised call,
   are outside the model (PUnk).  On every text on which QueryParse.access answers, this parser answers the same
   (FilterParseProps.access_f_extends).  No proofs here. *)
From GV.Model Require Import Ast.
From GV.Model Require Import ValueParse QueryParse OpParse ClauseParse CnfParse.
Local Open Scope string_scope.

Inductive fpart :=
| FP (p : query_part)
| FFilter (name : option string) (cnf : list (list pclause))
| FKeys (name : option string) (c : cmp_op * bool) (w : rhs).
Record fquery := mkFQ { fq_parts : list fpart; fq_all : bool }.

(* opt(variable_capture_in_map_or_index): layout, a name, blanks, `|` *)
Definition capture (s : string) : pres (option string) :=
  match var_name (skip_ws_comments s) with
  | POk v r => match expect "|" (snd (span_while is_blank r)) with Some r' => POk (Some v) r' | None => POk None s end
  | PErr => POk None s
  | PFail => PFail
  | PUnk => PUnk
  | POof => POof
  end.

Definition keys_cmp (s : string) : pres (cmp_op * bool) :=
  palt (tagged (OEq, false) ["=="] s) (palt (tagged (OEq, true) ["!="] s) (palt (tagged (OIn, false) kw_in_keyword s)
       (match not_kw s with Some r => tagged (OIn, true) kw_in_keyword r | None => PErr end))).

Definition starts_with (c : ascii) (s : string) : bool := match s with String a _ => Ascii.eqb a c | EmptyString => false end.

Section WithRegex.
Variable regex_valid : string -> bool.

(* map_keys_match, after the opening bracket *)
Definition keys_match (fuel : nat) (s1 : string) : pres fpart :=
  match capture s1 with
  | POk name s2 =>
      match alt_tags kw_keys (skip_ws_comments s2) with
      | None => PErr
      | Some s3 =>
          match keys_cmp (skip_ws_comments s3) with
          | POk c s4 =>
              let closing (w : rhs) (s5 : string) : pres fpart :=
                match ws_char "]" s5 with Some r => POk (FKeys name c w) r | None => PErr end in
              match parse_value regex_valid fuel s4 with
              | POk l s5 => closing (RLit l) s5
              | PErr =>
                  match access fuel (skip_ws_comments s4) with
                  | POk q s5 => closing (RQuery q) s5
                  | PErr => PFail
                  | PFail => PFail
                  | PUnk => PUnk
                  | POof => POof
                  end
              | PFail => PFail
              | PUnk => PUnk
              | POof => POof
              end
          | PErr => PFail
          | PFail => PFail
          | PUnk => PUnk
          | POof => POof
          end
      end
  | PErr => PErr
  | PFail => PFail
  | PUnk => PUnk
  | POof => POof
  end.

(* one clause inside a filter: `clause` = alt(when block, block clause, parameterised call, access clause), of which only the last
   is modelled; the earlier alternatives are recognised by how they start *)
Definition filter_elem (fuel : nat) (t : string) : pres pclause :=
  let t0 := skip_ws_comments t in
  match alt_tags kw_when t0 with
  | Some _ => PUnk
  | None =>
      match clause regex_valid fuel t0 with
      | POk c r =>
          (* `q !empty {` is a block clause *)
          if cmp_op_eqb (fst (pc_cmp c)) OEmpty && snd (pc_cmp c) && negb (pc_neg c)
             && match pc_msg c with None => true | Some _ => false end && starts_with "{" (skip_ws_comments r)
          then PUnk else POk c r
      | PErr =>
          match call_like t0 with
          | PErr =>
              match access fuel t0 with
              | POk _ r => if starts_with "{" (skip_ws_comments r) then PUnk else PErr
              | PErr => PErr
              | PFail => PFail
              | PUnk => PUnk
              | POof => POof
              end
          | other => pmap (fun _ => no_clause) other
          end
      | PFail => PFail
      | PUnk => PUnk
      | POof => POof
      end
  end.

(* predicate_filter_clauses, after the opening bracket *)
Definition filter (fuel : nat) (s1 : string) : pres fpart :=
  match capture s1 with
  | POk name s2 =>
      match cnf filter_elem fuel s2 with
      | POk l r => match ws_char "]" r with Some r' => POk (FFilter name l) r' | None => PFail end
      | PErr => PErr
      | PFail => PFail
      | PUnk => PUnk
      | POof => POof
      end
  | PErr => PErr
  | PFail => PFail
  | PUnk => PUnk
  | POof => POof
  end.

Definition part_f (fuel : nat) (s : string) : pres fpart :=
  match dotted_property s with
  | PErr =>
      match ws_char "[" s with
      | None => PErr
      | Some s1 =>
          palt (pmap FP (all_indices_body s1)) (palt (pmap FP (array_index_body s1)) (palt (pmap FP (map_key_lookup_body s1))
               (palt (keys_match fuel s1) (filter fuel s1))))
      end
  | other => pmap FP other
  end.

Fixpoint parts_loop_f (fuel : nat) (acc : list fpart) (s : string) : pres (list fpart) :=
  match fuel with
  | O => POof
  | S n =>
      match part_f n s with
      | POk p r => parts_loop_f n (acc ++ [p]) r
      | PErr => POk acc s
      | PFail => PFail
      | PUnk => PUnk
      | POof => POof
      end
  end.

Definition after_variable_f (first : query_part) (parts : list fpart) : list fpart :=
  if part_is_variable first then
    match parts with
    | FP (QAllIndices _) :: _ => parts
    | _ => FP (QAllIndices None) :: parts
    end
  else parts.

Definition access_f (fuel : nat) (s : string) : pres fquery :=
  let '(all, s1) := match some_keyword s with Some r => (false, r) | None => (true, s) end in
  let first : pres query_part :=
    match this_keyword s1 with
    | Some r => POk QThis r
    | None => pmap QKey (palt (var_access s1) (property_name s1))
    end in
  match first with
  | POk f r =>
      match fuel with
      | O => POof
      | S n =>
          match part_f n r with
          | POk p r1 =>
              match parts_loop_f n [p] r1 with
              | POk parts r' => POk (mkFQ (FP f :: after_variable_f f parts) all) r'
              | other => pmap (fun _ => mkFQ [] all) other
              end
          | PErr => POk (mkFQ [FP f] all) r
          | other => pmap (fun _ => mkFQ [] all) other
          end
      end
  | other => pmap (fun _ => mkFQ [] all) other
  end.

Definition access_f_top (s : string) : pres fquery := access_f (S (S (S (String.length s)))) s.
End WithRegex.

(* ---------------------------------------------------------------- the tie *)
Inductive impl_fpart :=
| IFP (p : query_part)
| IFFilter (name : option string) (cnf : list (list impl_when))
| IFKeys (name : option string) (o : cmp_op) (n : bool) (w : impl_rhs)
| IFOther.
Inductive impl_fquery := IFQOk (parts : list impl_fpart) (all : bool) (offset : N) | IFQError | IFQFailure | IFQOther.

Definition fpart_agree (m : fpart) (i : impl_fpart) : bool :=
  match m, i with
  | FP a, IFP b => part_eqb a b
  | FFilter n cnf, IFFilter n' cnf' => ostr_eqb n n' && list_agree (list_agree (fun c w => when_agree (PWClause c) w)) cnf cnf'
  | FKeys n c w, IFKeys n' o neg w' => ostr_eqb n n' && cmp_op_eqb (fst c) o && Bool.eqb (snd c) neg && rhs_agree (Some w) w'
  | _, _ => false
  end.

Definition access_f_obs (regex_valid : string -> bool) (text : string) (i : impl_fquery) : pa_verdict :=
  match access_f_top regex_valid text, i with
  | PUnk, _ => PANotModelled
  | POk q r, IFQOk parts all off =>
      if list_agree fpart_agree (fq_parts q) parts && Bool.eqb (fq_all q) all && N.eqb (N.of_nat (String.length text - String.length r)) off
      then PAAgree else PADisagree
  | PErr, IFQError => PAAgreeReject
  | PFail, IFQFailure => PAAgreeReject
  | _, _ => PADisagree
  end.
