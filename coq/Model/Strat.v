(* Strat.v — weights and stratification of a rules file (executable; no proofs here).
   wt_* : three per constructor plus the potentials of the variable / rule names a term mentions;
   a program is stratified by (wv, wr) when every definition weighs less than the name it defines.
   auto_potentials computes candidate potentials by iteration; `terminates_within` checks them, so it is a sound
   (TermProps.terminates_within_sound) executable test that the evaluation of a program needs at most that much fuel,
   i.e. that the recursion depth of the evaluator is bounded by the program alone. *)
From GV.Model Require Import SEval.
Local Open Scope nat_scope.

Definition sumf {A} (f : A -> nat) : list A -> nat :=
  fix go (l : list A) : nat := match l with [] => 0 | x :: r => f x + go r end.

Section Weights.
Variable wv wr : string -> nat.

Definition wt_nc (n : named_clause) : nat := match n with GuardNamedRuleClause dep _ _ => 3 + wr dep end.

Fixpoint wt_lv (v : let_value) : nat :=
  match v with
  | LValue _ => 1
  | LAccess a => 1 + wt_aq a
  | LFunction ps _ => 3 + sumf wt_lv ps
  end
with wt_part (p : query_part) : nat :=
  match p with
  | QThis | QAllValues _ | QAllIndices _ | QIndex _ => 3
  | QKey k => 3 + match key_variable k with Some v => wv v | None => 0 end
  | QMapKeyFilter _ _ w => 3 + wt_lv w
  | QFilter _ cnf => 3 + sumf (sumf wt_clause) cnf
  end
with wt_aq (a : access_query) : nat :=
  match a with AccessQuery q _ => 1 + sumf wt_part q end
with wt_ac (c : access_clause) : nat :=
  match c with
  | GuardAccessClause q _ w _ _ => 3 + wt_aq q + match w with None => 0 | Some v => wt_lv v end
  end
with wt_clause (g : guard_clause) : nat :=
  match g with
  | GClause c => 1 + wt_ac c
  | GNamedRule n => 1 + wt_nc n
  | GParameterizedNamedRule ps n => 3 + sumf wt_lv ps + wt_nc n
  | GBlockClause q b _ => 3 + wt_aq q + wt_block b
  | GWhenBlock conds b => 3 + sumf (sumf wt_wc) conds + wt_block b
  end
with wt_wc (w : when_clause) : nat :=
  match w with
  | WClause c => 1 + wt_ac c
  | WNamedRule n => 1 + wt_nc n
  | WParameterizedNamedRule ps n => 3 + sumf wt_lv ps + wt_nc n
  end
with wt_block (b : gblock) : nat :=
  match b with Block _ cnf => 3 + sumf (sumf wt_clause) cnf end.

Definition wq (q : query) : nat := sumf wt_part q.
Definition wt_cnf (cnf : list (list guard_clause)) : nat := sumf (sumf wt_clause) cnf.
Definition wt_conds (c : when_conditions) : nat := sumf (sumf wt_wc) c.
Definition wt_oconds (c : option when_conditions) : nat := match c with Some c => 3 + wt_conds c | None => 0 end.

Definition let_ok (l : let_expr) : bool := Nat.leb (wt_lv (snd l) + 2) (wv (fst l)).

(* every `let` inside the term is lighter than the name it defines *)
Fixpoint wf_lv (v : let_value) : bool :=
  match v with
  | LValue _ => true
  | LAccess a => wf_aq a
  | LFunction ps _ => forallb wf_lv ps
  end
with wf_part (p : query_part) : bool :=
  match p with
  | QMapKeyFilter _ _ w => wf_lv w
  | QFilter _ cnf => forallb (forallb wf_clause) cnf
  | _ => true
  end
with wf_aq (a : access_query) : bool :=
  match a with AccessQuery q _ => forallb wf_part q end
with wf_ac (c : access_clause) : bool :=
  match c with
  | GuardAccessClause q _ w _ _ => wf_aq q && match w with None => true | Some v => wf_lv v end
  end
with wf_clause (g : guard_clause) : bool :=
  match g with
  | GClause c => wf_ac c
  | GNamedRule _ => true
  | GParameterizedNamedRule ps _ => forallb wf_lv ps
  | GBlockClause q b _ => wf_aq q && wf_block b
  | GWhenBlock conds b => forallb (forallb wf_wc) conds && wf_block b
  end
with wf_wc (w : when_clause) : bool :=
  match w with
  | WClause c => wf_ac c
  | WNamedRule _ => true
  | WParameterizedNamedRule ps _ => forallb wf_lv ps
  end
with wf_block (b : gblock) : bool :=
  match b with
  | Block lets cnf => forallb (fun l => let_ok l && wf_lv (snd l)) lets && forallb (forallb wf_clause) cnf
  end.

Definition wf_query (q : query) : bool := forallb wf_part q.
Definition wf_cnf (cnf : list (list guard_clause)) : bool := forallb (forallb wf_clause) cnf.
Definition wf_conds (c : when_conditions) : bool := forallb (forallb wf_wc) c.
Definition wf_oconds (c : option when_conditions) : bool := match c with Some c => wf_conds c | None => true end.
Definition lets_ok (lets : list let_expr) : bool := forallb (fun l => let_ok l && wf_lv (snd l)) lets.


Definition wt_rc (c : rule_clause) : nat :=
  match c with
  | RClause g => 1 + wt_clause g
  | RWhenBlock conds b => 3 + wt_conds conds + wt_block b
  | RTypeBlock _ conds b q => 3 + wt_oconds conds + wt_block b + wq q
  end.
Definition wf_rc (c : rule_clause) : bool :=
  match c with
  | RClause g => wf_clause g
  | RWhenBlock conds b => wf_conds conds && wf_block b
  | RTypeBlock _ conds b q => wf_oconds conds && wf_block b && wf_query q
  end.
Definition wt_rule (x : rule) : nat := 3 + wt_oconds (rule_conditions x) + sumf (sumf wt_rc) (rule_cnf x).
Definition wf_rule (x : rule) : bool :=
  wf_oconds (rule_conditions x) && lets_ok (rule_lets x) && forallb (forallb wf_rc) (rule_cnf x).
Definition rule_ok (x : rule) : bool := Nat.leb (wt_rule x + 2) (wr (rule_name x)) && wf_rule x.

Definition stratified (prog : rules_file) : bool :=
  lets_ok (rf_lets prog) && forallb rule_ok (rf_rules prog) && forallb (fun p => rule_ok (pr_rule p)) (rf_param_rules prog).


End Weights.

(* ------------------------------------------------------------------ *)
(* all `let` definitions and all names of a program *)

Fixpoint lets_lv (v : let_value) : list let_expr :=
  match v with
  | LValue _ => []
  | LAccess a => lets_aq a
  | LFunction ps _ => flat_map lets_lv ps
  end
with lets_part (p : query_part) : list let_expr :=
  match p with
  | QMapKeyFilter _ _ w => lets_lv w
  | QFilter _ cnf => flat_map (flat_map lets_clause) cnf
  | _ => []
  end
with lets_aq (a : access_query) : list let_expr :=
  match a with AccessQuery q _ => flat_map lets_part q end
with lets_ac (c : access_clause) : list let_expr :=
  match c with
  | GuardAccessClause q _ w _ _ => lets_aq q ++ match w with None => [] | Some v => lets_lv v end
  end
with lets_clause (g : guard_clause) : list let_expr :=
  match g with
  | GClause c => lets_ac c
  | GNamedRule _ => []
  | GParameterizedNamedRule ps _ => flat_map lets_lv ps
  | GBlockClause q b _ => lets_aq q ++ lets_block b
  | GWhenBlock conds b => flat_map (flat_map lets_wc) conds ++ lets_block b
  end
with lets_wc (w : when_clause) : list let_expr :=
  match w with
  | WClause c => lets_ac c
  | WNamedRule _ => []
  | WParameterizedNamedRule ps _ => flat_map lets_lv ps
  end
with lets_block (b : gblock) : list let_expr :=
  match b with
  | Block lets cnf => lets ++ flat_map (fun l => lets_lv (snd l)) lets ++ flat_map (flat_map lets_clause) cnf
  end.

Definition lets_conds (c : when_conditions) : list let_expr := flat_map (flat_map lets_wc) c.
Definition lets_oconds (c : option when_conditions) : list let_expr := match c with Some c => lets_conds c | None => [] end.
Definition lets_rc (c : rule_clause) : list let_expr :=
  match c with
  | RClause g => lets_clause g
  | RWhenBlock conds b => lets_conds conds ++ lets_block b
  | RTypeBlock _ conds b q => lets_oconds conds ++ lets_block b ++ flat_map lets_part q
  end.
Definition lets_rule (x : rule) : list let_expr :=
  lets_oconds (rule_conditions x) ++ rule_lets x ++ flat_map (fun l => lets_lv (snd l)) (rule_lets x)
  ++ flat_map (flat_map lets_rc) (rule_cnf x).
Definition all_rules (p : rules_file) : list rule := rf_rules p ++ map pr_rule (rf_param_rules p).
Definition all_lets (p : rules_file) : list let_expr :=
  rf_lets p ++ flat_map (fun l => lets_lv (snd l)) (rf_lets p) ++ flat_map lets_rule (all_rules p).

Definition pot := list (string * nat).
Definition pot_get (p : pot) (x : string) : nat := match assoc x p with Some n => n | None => 0 end.

(* one round: every name gets 2 + the weight of its heaviest definition under the previous potentials *)
Definition round (prog : rules_file) (pv_ pr_ : pot) : pot * pot :=
  let wv := pot_get pv_ in
  let wr := pot_get pr_ in
  (fold_left (fun acc l => assoc_set (fst l) (Nat.max (pot_get acc (fst l)) (wt_lv wv wr (snd l) + 2)) acc) (all_lets prog) [],
   fold_left (fun acc x => assoc_set (rule_name x) (Nat.max (pot_get acc (rule_name x)) (wt_rule wv wr x + 2)) acc) (all_rules prog) []).

Fixpoint auto_potentials (prog : rules_file) (n : nat) : pot * pot :=
  match n with
  | O => ([], [])
  | S k => let '(a, b) := auto_potentials prog k in round prog a b
  end.

Definition file_weight (wv wr : string -> nat) (prog : rules_file) : nat := sumf (wt_rule wv wr) (rf_rules prog) + 2.

(* Some fuel: the potentials found after `rounds` rounds stratify the program, and that much fuel is enough *)
Definition terminates_within (prog : rules_file) (rounds : nat) : option nat :=
  let '(a, b) := auto_potentials prog rounds in
  if stratified (pot_get a) (pot_get b) prog then Some (file_weight (pot_get a) (pot_get b) prog) else None.

(* ------------------------------------------------------------------ *)
(* parser-shaped programs: what the nom grammar guarantees about an AST (checked on every AST the implementation
   parses by the C08 correspondence; hypothesis of PanicProps) *)

Definition fn_arity (n : fn_name) : nat :=
  match n with
  | FJoin => 2 | FSubstring => 3 | FRegexReplace => 3 | FNow => 0
  | _ => 1
  end.

Definition head_ok (q : list query_part) : bool :=
  match q with QFilter _ _ :: _ => false | _ => true end.

Fixpoint pwf_lv (v : let_value) : bool :=
  match v with
  | LValue _ => true
  | LAccess a => pwf_aq a
  | LFunction ps name => Nat.eqb (List.length ps) (fn_arity name) && forallb pwf_lv ps
  end
with pwf_part (p : query_part) : bool :=
  match p with
  | QMapKeyFilter _ c w => negb (is_unary (fst c)) && pwf_lv w
  | QFilter _ cnf => forallb (forallb pwf_clause) cnf
  | _ => true
  end
with pwf_aq (a : access_query) : bool :=
  match a with AccessQuery q _ => forallb pwf_part q && head_ok q end
with pwf_ac (c : access_clause) : bool :=
  match c with
  | GuardAccessClause q _ w _ _ =>
      pwf_aq q && match aq_query q with [] => false | _ => true end && match w with None => true | Some v => pwf_lv v end
  end
with pwf_clause (g : guard_clause) : bool :=
  match g with
  | GClause c => pwf_ac c
  | GNamedRule _ => true
  | GParameterizedNamedRule ps _ => forallb pwf_lv ps
  | GBlockClause q b _ => pwf_aq q && pwf_block b
  | GWhenBlock conds b => forallb (forallb pwf_wc) conds && pwf_block b
  end
with pwf_wc (w : when_clause) : bool :=
  match w with
  | WClause c => pwf_ac c
  | WNamedRule _ => true
  | WParameterizedNamedRule ps _ => forallb pwf_lv ps
  end
with pwf_block (b : gblock) : bool :=
  match b with
  | Block lets cnf => forallb (fun l => pwf_lv (snd l)) lets && forallb (forallb pwf_clause) cnf
  end.

Definition pwf_query (q : query) : bool := forallb pwf_part q && head_ok q.
Definition pwf_cnf (cnf : list (list guard_clause)) : bool := forallb (forallb pwf_clause) cnf.
Definition pwf_conds (c : when_conditions) : bool := forallb (forallb pwf_wc) c.
Definition pwf_oconds (c : option when_conditions) : bool := match c with Some c => pwf_conds c | None => true end.
Definition pwf_lets (lets : list let_expr) : bool := forallb (fun l => pwf_lv (snd l)) lets.
Definition pwf_rc (c : rule_clause) : bool :=
  match c with
  | RClause g => pwf_clause g
  | RWhenBlock conds b => pwf_conds conds && pwf_block b
  | RTypeBlock _ conds b q => pwf_oconds conds && pwf_block b && pwf_query q
  end.
Definition pwf_rule (x : rule) : bool :=
  pwf_oconds (rule_conditions x) && pwf_lets (rule_lets x) && forallb (forallb pwf_rc) (rule_cnf x).
Definition pwf_prog (p : rules_file) : bool :=
  pwf_lets (rf_lets p) && forallb pwf_rule (rf_rules p) && forallb (fun pr => pwf_rule (pr_rule pr)) (rf_param_rules p).

(* ------------------------------------------------------------------ *)
(* key-consistent values: the key list of a struct holds strings, and names only keys the struct holds (the invariant of
   PathAwareValue::Map that guards the one panic site PanicProps leaves open); evaluated on every loaded document *)

Fixpoint wfv (v : pv) : bool :=
  match v with
  | PList _ l => forallb wfv l
  | PMap _ keys vals =>
      forallb (fun k => match k with PString _ kn => match assoc kn vals with Some _ => true | None => false end | _ => false end) keys
      && (fix go (l : list (string * pv)) : bool := match l with [] => true | (_, x) :: r => wfv x && go r end) vals
  | _ => true
  end.

(* ------------------------------------------------------------------ *)
(* every literal value written in a rules file is key-consistent (the parser builds literals with TryFrom<(&Value, Path)>,
   i.e. Value.annotate, which is: PanicProps.annotate_wfv); an executable predicate the C08 correspondence evaluates on every
   AST the implementation parses *)
Fixpoint vwf_lv (v : let_value) : bool :=
  match v with
  | LValue x => wfv x
  | LAccess q => vwf_aq q
  | LFunction ps _ => forallb vwf_lv ps
  end
with vwf_part (p : query_part) : bool :=
  match p with
  | QMapKeyFilter _ _ w => vwf_lv w
  | QFilter _ cnf => forallb (forallb vwf_clause) cnf
  | _ => true
  end
with vwf_aq (a : access_query) : bool :=
  match a with AccessQuery q _ => forallb vwf_part q end
with vwf_ac (c : access_clause) : bool :=
  match c with
  | GuardAccessClause q _ w _ _ => vwf_aq q && match w with None => true | Some v => vwf_lv v end
  end
with vwf_clause (g : guard_clause) : bool :=
  match g with
  | GClause c => vwf_ac c
  | GNamedRule _ => true
  | GParameterizedNamedRule ps _ => forallb vwf_lv ps
  | GBlockClause q b _ => vwf_aq q && vwf_block b
  | GWhenBlock conds b => forallb (forallb vwf_wc) conds && vwf_block b
  end
with vwf_wc (w : when_clause) : bool :=
  match w with
  | WClause c => vwf_ac c
  | WNamedRule _ => true
  | WParameterizedNamedRule ps _ => forallb vwf_lv ps
  end
with vwf_block (b : gblock) : bool :=
  match b with
  | Block lets cnf => forallb (fun l => vwf_lv (snd l)) lets && forallb (forallb vwf_clause) cnf
  end.

Definition vwf_query (q : query) : bool := forallb vwf_part q.
Definition vwf_cnf (cnf : list (list guard_clause)) : bool := forallb (forallb vwf_clause) cnf.
Definition vwf_conds (c : when_conditions) : bool := forallb (forallb vwf_wc) c.
Definition vwf_oconds (c : option when_conditions) : bool := match c with Some c => vwf_conds c | None => true end.
Definition vwf_lets (lets : list let_expr) : bool := forallb (fun l => vwf_lv (snd l)) lets.
Definition vwf_rc (c : rule_clause) : bool :=
  match c with
  | RClause g => vwf_clause g
  | RWhenBlock conds b => vwf_conds conds && vwf_block b
  | RTypeBlock _ conds b q => vwf_oconds conds && vwf_block b && vwf_query q
  end.
Definition vwf_rule (x : rule) : bool :=
  vwf_oconds (rule_conditions x) && vwf_lets (rule_lets x) && forallb (forallb vwf_rc) (rule_cnf x).
Definition vwf_prog (p : rules_file) : bool :=
  vwf_lets (rf_lets p) && forallb vwf_rule (rf_rules p) && forallb (fun pr => vwf_rule (pr_rule pr)) (rf_param_rules p).
