(* Batch.v — validating several rules files against several data files, as the loops of validate.rs 405-436 +
   690-758 (rules-major) and structured.rs 100-124 (data-major) do it: every (rules, data) pair is evaluated by
   eval_file from a fresh root scope (init_state). No proofs here. *)
From GV.Model Require Export SEval Cli.

Section Batch.
Variable re : re_oracle.
Variable conv : conv_oracle.
Variable fuel : nat.

Definition pair_result (r : rules_file) (d : pv) : outcome (status * list record) :=
  match eval_file re conv r fuel d with
  | Done (st, recs, _) => Done (st, recs)
  | Err e => Err e
  | Panic p => Panic p
  | OutOfFuel => OutOfFuel
  | Unknown => Unknown
  end.

(* plain path: for each rules file, for each data file *)
Definition batch_rules_major (rs : list rules_file) (ds : list pv) :=
  map (fun r => map (fun d => pair_result r d) ds) rs.
(* structured path: for each data file, for each rules file *)
Definition batch_data_major (rs : list rules_file) (ds : list pv) :=
  map (fun d => map (fun r => pair_result r d) rs) ds.

Definition cell_outcome (o : outcome (status * list record)) : data_outcome :=
  match o with
  | Done (PASS, _) => DPass
  | Done (FAIL, _) => DFail
  | Done (SKIP, _) => DSkip
  | _ => DErr
  end.

Definition matrix_of (rs : list rules_file) (ds : list pv) : list rules_outcome :=
  map (fun row => RParsed (map cell_outcome row)) (batch_rules_major rs ds).

End Batch.
