(* EvalLaws.v — what the evaluator's combinators return and record (C02),
   proved for every clause evaluator f, every list length, every state. *)
From GV.Model Require Import SEval Wf.
From GV.Proofs Require Import StatusProps.

Lemma bind_inv {A B} (m : M A) (f : A -> M B) s b recs s' :
  bind m f s = Done (b, recs, s') ->
  exists a r1 s1 r2, m s = Done (a, r1, s1) /\ f a s1 = Done (b, r2, s') /\ recs = r1 ++ r2.
Proof.
  unfold bind. destruct (m s) as [[[a r1] s1]| | | |]; try discriminate.
  destruct (f a s1) as [[[b' r2] s2]| | | |] eqn:E; try discriminate.
  intros H. inversion H; subst. exists a, r1, s1, r2. auto.
Qed.

Lemma ret_inv {A} (a : A) s b recs s' : ret a s = Done (b, recs, s') -> b = a /\ recs = [] /\ s' = s.
Proof. unfold ret. intros H. inversion H. auto. Qed.

Lemma node_inv {A} (m : M A) mk s a recs s' :
  node m mk s = Done (a, recs, s') ->
  exists ch, m s = Done (a, ch, s') /\ recs = [Rec (rewrite_container (frames s') (mk a)) ch].
Proof.
  unfold node. destruct (m s) as [[[a' ch] s1]| | | |]; try discriminate.
  intros H. inversion H; subst. exists ch. auto.
Qed.

(* the parameterised-rule context rewrites only the message of a RuleCheck *)
Lemma rewrite_container_status fs c : container_status (rewrite_container fs c) = container_status c.
Proof.
  revert c. induction fs as [|f fs IH]; intros c; cbn; [reflexivity|].
  destruct f; try apply IH. rewrite IH. destruct c; try reflexivity.
  destruct (String.eqb name call_name); reflexivity.
Qed.

Lemma node_status {A} (m : M A) mk s a recs s' :
  node m mk s = Done (a, recs, s') ->
  exists r, recs = [r] /\ container_status (rec_container r) = container_status (mk a).
Proof.
  intros H. apply node_inv in H. destruct H as (ch & _ & ->).
  eexists. split; [reflexivity|]. cbn. apply rewrite_container_status.
Qed.

(* ---------- one `or` line ---------- *)

(* statuses returned by the alternatives that were evaluated, in order *)
Inductive disj_trace {T} (f : T -> M status) : list T -> state -> list status -> list record -> state -> Prop :=
| dt_nil s : disj_trace f [] s [] [] s
| dt_pass x r s s1 recs :
    f x s = Done (PASS, recs, s1) -> disj_trace f (x :: r) s [PASS] recs s1
| dt_cont x r s st s1 recs sts recs' s2 :
    f x s = Done (st, recs, s1) -> st <> PASS -> disj_trace f r s1 sts recs' s2 ->
    disj_trace f (x :: r) s (st :: sts) (recs ++ recs') s2.

Lemma disj_trace_stops {T} (f : T -> M status) l s sts recs s' :
  disj_trace f l s sts recs s' -> stops_at_pass sts = true.
Proof.
  induction 1; cbn; auto. destruct st; try congruence; assumption.
Qed.

Lemma disj_trace_prefix {T} (f : T -> M status) l s sts recs s' :
  disj_trace f l s sts recs s' -> (List.length sts <= List.length l)%nat.
Proof. induction 1; cbn; lia. Qed.

Lemma disj_body_law {T} (f : T -> M status) l failed s st recs s' :
  disj_body f l failed s = Done (st, recs, s') ->
  exists sts, disj_trace f l s sts recs s' /\
              st = disjunction_status (if failed then FAIL :: sts else sts).
Proof.
  revert failed s st recs s'. induction l as [|x l IH]; intros failed s st recs s' H; cbn [disj_body] in H.
  - apply ret_inv in H. destruct H as (-> & -> & ->). exists []. split; [constructor|].
    destruct failed; reflexivity.
  - apply bind_inv in H. destruct H as (st1 & r1 & s1 & r2 & Hf & Hk & ->).
    destruct st1.
    + apply ret_inv in Hk. destruct Hk as (-> & -> & ->). exists [PASS]. split.
      * rewrite app_nil_r. apply dt_pass. exact Hf.
      * destruct failed; reflexivity.
    + apply IH in Hk. destruct Hk as (sts & Ht & ->). exists (FAIL :: sts). split.
      * eapply dt_cont; eauto. discriminate.
      * unfold disjunction_status. destruct failed; cbn [existsb status_eqb orb]; reflexivity.
    + apply IH in Hk. destruct Hk as (sts & Ht & ->). exists (SKIP :: sts). split.
      * eapply dt_cont; eauto. discriminate.
      * unfold disjunction_status. destruct failed; cbn [existsb status_eqb orb]; reflexivity.
Qed.

(* a line of `or`-joined clauses: PASS iff one evaluated alternative passed, FAIL iff none
   passed and one failed, else SKIP; nothing is evaluated after the first PASS; with two or
   more alternatives exactly one Disjunction record carrying that status is emitted *)
Theorem line_body_law {T} (f : T -> M status) line s st recs s' :
  line_body f line s = Done (st, recs, s') ->
  exists sts ch,
    disj_trace f line s sts ch s' /\ st = disjunction_status sts /\ stops_at_pass sts = true /\
    match line with
    | _ :: _ :: _ => exists c, recs = [Rec c ch] /\ container_status c = Some st
    | _ => recs = ch
    end.
Proof.
  unfold line_body. intros H.
  destruct line as [|x [|y l]].
  - apply disj_body_law in H. destruct H as (sts & Ht & ->). exists sts, recs.
    repeat split; eauto using disj_trace_stops.
  - apply disj_body_law in H. destruct H as (sts & Ht & ->). exists sts, recs.
    repeat split; eauto using disj_trace_stops.
  - apply node_inv in H. destruct H as (ch & Hb & ->).
    apply disj_body_law in Hb. destruct Hb as (sts & Ht & ->). exists sts, ch.
    repeat split; eauto using disj_trace_stops.
    eexists. split; [reflexivity|]. rewrite rewrite_container_status. reflexivity.
Qed.

(* ---------- a CNF body ---------- *)

Inductive lines_trace {T} (f : T -> M status) : list (list T) -> state -> list status -> list record -> state -> Prop :=
| lt_nil s : lines_trace f [] s [] [] s
| lt_cons line rest s st recs s1 sts recs' s2 :
    line_body f line s = Done (st, recs, s1) -> lines_trace f rest s1 sts recs' s2 ->
    lines_trace f (line :: rest) s (st :: sts) (recs ++ recs') s2.

Lemma mapM_lines_inv {T} (f : T -> M status) cnf s sts recs s' :
  mapM (line_body f) cnf s = Done (sts, recs, s') -> lines_trace f cnf s sts recs s'.
Proof.
  revert s sts recs s'. induction cnf as [|line rest IH]; intros s sts recs s' H; cbn [mapM] in H.
  - apply ret_inv in H. destruct H as (-> & -> & ->). constructor.
  - apply bind_inv in H. destruct H as (st & r1 & s1 & r2 & Hl & Hk & ->).
    apply bind_inv in Hk. destruct Hk as (ys & r3 & s2 & r4 & Hm & Hr & ->).
    apply ret_inv in Hr. destruct Hr as (-> & -> & ->). rewrite app_nil_r.
    econstructor; eauto.
Qed.

(* every line is evaluated (no short circuit between lines); the body is FAIL iff a line
   failed, PASS iff none failed and one passed, else SKIP *)
Theorem cnf_body_law {T} (f : T -> M status) cnf s st recs s' :
  cnf_body f cnf s = Done (st, recs, s') ->
  exists sts, lines_trace f cnf s sts recs s' /\ List.length sts = List.length cnf /\
              st = fold_fail_pass_skip sts.
Proof.
  unfold cnf_body. intros H. apply bind_inv in H. destruct H as (sts & r1 & s1 & r2 & Hm & Hr & ->).
  apply ret_inv in Hr. destruct Hr as (-> & -> & ->). rewrite app_nil_r.
  exists sts. split; [apply mapM_lines_inv; exact Hm|]. split; [|reflexivity].
  apply mapM_lines_inv in Hm. induction Hm; cbn; congruence.
Qed.

(* ---------- when guards ---------- *)

Section WithProg.
Variable re : re_oracle.
Variable conv : conv_oracle.
Variable prog : rules_file.
Variable r : ev.

(* a `when` block whose condition is not PASS is SKIP, records the condition's status and
   nothing of the body; otherwise it carries the body's status *)
Theorem when_block_law conds b s st recs s' :
  when_block_body re prog r conds b s = Done (st, recs, s') ->
  exists cst crecs s1,
    cnf_body (when_clause_body re prog r) conds s = Done (cst, crecs, s1) /\
    ((cst <> PASS /\ st = SKIP /\ s' = s1 /\
      exists c1 c2, recs = [Rec c1 [Rec c2 crecs]] /\ container_status c1 = Some SKIP /\
                    container_status c2 = Some cst)
     \/
     (cst = PASS /\ exists brecs,
        gblock_body r b s1 = Done (st, brecs, s') /\
        exists c1 c2, recs = [Rec c1 (Rec c2 crecs :: brecs)] /\ container_status c1 = Some st /\
                      container_status c2 = Some PASS)).
Proof.
  unfold when_block_body. intros H. apply node_inv in H. destruct H as (ch & Hb & ->).
  apply bind_inv in Hb. destruct Hb as (cst & r1 & s1 & r2 & Hc & Hk & ->).
  apply node_inv in Hc. destruct Hc as (crecs & Hc & ->).
  exists cst, crecs, s1. split; [exact Hc|].
  destruct cst.
  - right. split; [reflexivity|]. exists r2. split; [exact Hk|].
    eexists _, _. split; [reflexivity|]. rewrite !rewrite_container_status. split; reflexivity.
  - left. apply ret_inv in Hk. destruct Hk as (-> & -> & ->). split; [discriminate|]. repeat split.
    eexists _, _. split; [reflexivity|]. rewrite !rewrite_container_status. split; reflexivity.
  - left. apply ret_inv in Hk. destruct Hk as (-> & -> & ->). split; [discriminate|]. repeat split.
    eexists _, _. split; [reflexivity|]. rewrite !rewrite_container_status. split; reflexivity.
Qed.

(* a rule whose `when` condition is not PASS is SKIP and its body is not evaluated *)
Theorem rule_when_law x conds s st recs s' :
  rule_conditions x = Some conds ->
  rule_body re prog r x s = Done (st, recs, s') ->
  exists cst crecs s1,
    cnf_body (when_clause_body re prog r) conds s = Done (cst, crecs, s1) /\
    (cst <> PASS -> st = SKIP /\ s' = s1 /\
       exists c1 c2, recs = [Rec c1 [Rec c2 crecs]] /\ container_status c1 = Some SKIP /\
                     container_status c2 = Some cst).
Proof.
  unfold rule_body. intros Hc H. rewrite Hc in H. apply node_inv in H. destruct H as (ch & Hb & ->).
  apply bind_inv in Hb. destruct Hb as (go & r1 & s1 & r2 & Hg & Hk & ->).
  apply bind_inv in Hg. destruct Hg as (cst & r3 & s2 & r4 & Hn & Hr & ->).
  apply ret_inv in Hr. destruct Hr as (-> & -> & ->).
  apply node_inv in Hn. destruct Hn as (crecs & Hn & ->).
  exists cst, crecs, s2. split; [exact Hn|]. intros Hne.
  destruct cst; [congruence| |]; cbn in Hk; apply ret_inv in Hk; destruct Hk as (-> & -> & ->);
    repeat split; eexists _, _; (split; [rewrite !app_nil_r; reflexivity|]);
    rewrite !rewrite_container_status; split; reflexivity.
Qed.

(* a clause naming another rule is PASS iff that rule is PASS, inverted under `not` *)
Theorem named_clause_law dep negation custom s st recs s' :
  named_clause_body prog r (GuardNamedRuleClause dep negation custom) s = Done (st, recs, s') ->
  exists rst ch, rule_status_body prog r dep s = Done (rst, ch, s') /\
                 st = (if Bool.eqb (status_eqb rst PASS) negation then FAIL else PASS) /\
                 exists c, recs = [Rec c ch] /\ container_status c = Some st.
Proof.
  unfold named_clause_body. intros H. apply node_inv in H. destruct H as (ch & Hb & ->).
  apply bind_inv in Hb. destruct Hb as (rst & r1 & s1 & r2 & Hs & Hr & ->).
  apply ret_inv in Hr. destruct Hr as (-> & -> & ->). rewrite app_nil_r.
  exists rst, r1. split; [exact Hs|]. split.
  - destruct rst, negation; reflexivity.
  - eexists. split; [reflexivity|]. rewrite rewrite_container_status.
    destruct rst, negation; reflexivity.
Qed.

End WithProg.

(* ---------- the file ---------- *)

Lemma mapM_statuses {A} (f : A -> M status) l s sts recs s' :
  mapM f l s = Done (sts, recs, s') -> List.length sts = List.length l.
Proof.
  revert s sts recs s'. induction l as [|x l IH]; intros s sts recs s' H; cbn [mapM] in H.
  - apply ret_inv in H. destruct H as (-> & _). reflexivity.
  - apply bind_inv in H. destruct H as (st & r1 & s1 & r2 & _ & Hk & _).
    apply bind_inv in Hk. destruct Hk as (ys & r3 & s2 & r4 & Hm & Hr & _).
    apply ret_inv in Hr. destruct Hr as (-> & _). cbn. f_equal. eapply IH; eauto.
Qed.

Lemma rewrite_container_file fs st : rewrite_container fs (KFileCheck st) = KFileCheck st.
Proof. induction fs as [|f fs IH]; cbn; [reflexivity|]. destruct f; exact IH. Qed.

(* the file is FAIL iff a rule failed, PASS iff none failed and one passed, else SKIP; the
   record is one tree whose root carries the status returned to the caller *)
Theorem file_law re conv prog fuel doc st recs s' :
  eval_file re conv prog fuel doc = Done (st, recs, s') ->
  exists sts ch,
    mapM (ev_rule (evalN re conv prog fuel)) (rf_rules prog) (init_state prog doc) = Done (sts, ch, s') /\
    st = fold_fail_pass_skip sts /\ List.length sts = List.length (rf_rules prog) /\
    recs = [Rec (KFileCheck st) ch].
Proof.
  unfold eval_file, file_body. intros H. apply node_inv in H. destruct H as (ch & Hb & ->).
  apply bind_inv in Hb. destruct Hb as (sts & r1 & s1 & r2 & Hm & Hr & ->).
  apply ret_inv in Hr. destruct Hr as (-> & -> & ->). rewrite app_nil_r.
  exists sts, r1. split; [exact Hm|]. split; [reflexivity|]. split; [eapply mapM_statuses; eauto|].
  rewrite rewrite_container_file. reflexivity.
Qed.
