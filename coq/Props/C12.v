(* C12 — evaluations are isolated: each (rules file, data file) pair stands alone. Pinned statements only.
   In the model a pair's report is eval_file applied to (rules, data) from the fresh state init_state: that
   the code constructs its root scope inside the innermost loop and has no mutable process-wide state is the
   content of the root_scope / static inventories checked on every run. *)
From Coq Require Import Permutation.
From GV.Model Require Import Batch.
From GV.Proofs Require Import CliProps BatchProps FrameProps.

Theorem C12_batch_is_pointwise : forall re conv fuel rs ds i j r d,
  nth_error rs i = Some r -> nth_error ds j = Some d ->
  (exists row, nth_error (batch_rules_major re conv fuel rs ds) i = Some row /\
               nth_error row j = Some (pair_result re conv fuel r d)) /\
  (exists col, nth_error (batch_data_major re conv fuel rs ds) j = Some col /\
               nth_error col i = Some (pair_result re conv fuel r d)).
Proof. exact batch_is_pointwise. Qed.
Print Assumptions C12_batch_is_pointwise.

Theorem C12_batch_equals_single : forall re conv fuel rs ds i j r d,
  nth_error rs i = Some r -> nth_error ds j = Some d ->
  exists row, nth_error (batch_rules_major re conv fuel rs ds) i = Some row /\
              nth_error row j = nth_error (hd [] (batch_rules_major re conv fuel [r] [d])) 0.
Proof. exact batch_equals_single. Qed.
Print Assumptions C12_batch_equals_single.

Theorem C12_perm_rules : forall re conv fuel rs rs' ds,
  Permutation rs rs' ->
  Permutation (batch_rules_major re conv fuel rs ds) (batch_rules_major re conv fuel rs' ds).
Proof. exact batch_perm_rules. Qed.
Print Assumptions C12_perm_rules.

Theorem C12_perm_data : forall re conv fuel rs ds ds',
  Permutation ds ds' ->
  Permutation (batch_data_major re conv fuel rs ds) (batch_data_major re conv fuel rs ds').
Proof. exact batch_perm_data. Qed.
Print Assumptions C12_perm_data.

Theorem C12_fails_iff_some_pair_fails : forall re conv fuel rs ds,
  some_fail (matrix_of re conv fuel rs ds) = true <->
  exists r d st recs, In r rs /\ In d ds /\ pair_result re conv fuel r d = Done (FAIL, recs) /\ st = FAIL.
Proof. exact batch_fails_iff_some_pair_fails. Qed.
Print Assumptions C12_fails_iff_some_pair_fails.

(* the order in which files are given or walked does not change the exit status *)
Theorem C12_rules_order_irrelevant : forall m n rs rs',
  Permutation rs rs' -> well_shaped n rs = true ->
  (m <> VPlain \/ all_parsed rs = true \/ some_fail rs = false) ->
  exit_status (validate_exit m true n rs) = exit_status (validate_exit m true n rs').
Proof. exact rules_order_irrelevant. Qed.
Print Assumptions C12_rules_order_irrelevant.

Theorem C12_data_order_irrelevant : forall m n rs f,
  (forall l, Permutation l (f l)) -> well_shaped n rs = true ->
  (m <> VPlain \/ all_parsed rs = true \/ some_fail rs = false) ->
  exit_status (validate_exit m true n rs) = exit_status (validate_exit m true n (permute_rows f rs)).
Proof. exact data_order_irrelevant. Qed.
Print Assumptions C12_data_order_irrelevant.

(* scope discipline inside one evaluation: every rule, clause, query, variable resolution and function call, of ANY program,
   hands back the scope stack it was given - the same frames, roots and definitions; only variable memos and the
   rule-status cache may have grown. Nothing of one rule's or one block's scopes is left behind for the next. *)
Theorem C12_scope_stack_is_handed_back : forall re conv prog fuel, ev_kshape (evalN re conv prog fuel).
Proof. exact evalN_keeps_shape. Qed.
Print Assumptions C12_scope_stack_is_handed_back.

(* ... and after the file only the root scope of this (rules file, document) pair is left *)
Theorem C12_file_ends_in_its_root_scope : forall re conv prog fuel doc st recs s',
  eval_file re conv prog fuel doc = Done (st, recs, s') ->
  exists memo, frames s' = [FRoot doc (rf_lets prog) memo].
Proof. exact eval_file_keeps_shape. Qed.
Print Assumptions C12_file_ends_in_its_root_scope.
