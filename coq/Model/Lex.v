(* Lex.v — the lexical layer of rules/parser.rs: keyword combinators over the tag tables regenerated from the source
   (Generated/Keywords.v), white space and comments (zero_or_more_ws_or_comment, comment2; parser.rs 110-157) and quoted
   strings (parse_string_inner 177-205). No proofs here. *)
From GV.Model Require Export Base.
From GV.Generated Require Export Keywords.

(* alt((tag(t1), tag(t2), ...)): the first alternative that is a prefix of the input wins; the rest is returned *)
Fixpoint drop (n : nat) (s : string) : string :=
  match n, s with
  | O, _ => s
  | S k, String _ r => drop k r
  | S _, EmptyString => EmptyString
  end.
Fixpoint alt_tags (tags : list string) (s : string) : option string :=
  match tags with
  | [] => None
  | t :: r => if str_prefix t s then Some (drop (String.length t) s) else alt_tags r s
  end.

(* value(X, alt(...)): every spelling yields the same token X *)
Definition keyword {T} (x : T) (tags : list string) (s : string) : option (T * string) :=
  option_map (fun r => (x, r)) (alt_tags tags s).

(* multispace: space, tab, CR, LF *)
Definition is_ws (a : ascii) : bool :=
  let n := N_of_ascii a in N.eqb n 32 || N.eqb n 9 || N.eqb n 10 || N.eqb n 13.
Definition is_nl (a : ascii) : bool := N.eqb (N_of_ascii a) 10.
Definition is_hash (a : ascii) : bool := N.eqb (N_of_ascii a) 35.

(* many0(alt((multispace1, comment2))): comment2 = '#' take_till('\n') multispace0 *)
Fixpoint skip (in_comment : bool) (s : string) : string :=
  match s with
  | EmptyString => EmptyString
  | String c r =>
      if in_comment then (if is_nl c then skip false r else skip true r)
      else if is_ws c then skip false r
      else if is_hash c then skip true r
      else s
  end.
Definition skip_ws_comments (s : string) : string := skip false s.

(* parse_string_inner(q): the fragment up to the next quote; a fragment ending with a backslash means an escaped quote *)
Fixpoint read_quoted (q : ascii) (s : string) (prev_backslash : bool) (acc : string) : option (string * string) :=
  match s with
  | EmptyString => None
  | String c r =>
      if Ascii.eqb c q then
        if prev_backslash then read_quoted q r false (acc +++ String q EmptyString)
        else Some (acc, r)
      else
        let acc' := if prev_backslash then acc +++ "\" else acc in
        if Ascii.eqb c "\" then read_quoted q r true acc'
        else read_quoted q r false (acc' +++ String c EmptyString)
  end.
Definition parse_quoted (q : ascii) (s : string) : option (string * string) :=
  match s with
  | String c r => if Ascii.eqb c q then read_quoted q r false EmptyString else None
  | EmptyString => None
  end.
Definition parse_string (s : string) : option (string * string) :=
  match parse_quoted "'" s with
  | Some x => Some x
  | None => parse_quoted """" s
  end.

(* writing a string with quote q: every q inside is preceded by a backslash *)
Fixpoint escape (q : ascii) (s : string) : string :=
  match s with
  | EmptyString => EmptyString
  | String c r => if Ascii.eqb c q then String "\" (String q (escape q r)) else String c (escape q r)
  end.
Definition quote (q : ascii) (s : string) : string := String q (escape q s +++ String q EmptyString).

Definition set_eqb (a b : list string) : bool :=
  forallb (fun x => existsb (String.eqb x) b) a && forallb (fun x => existsb (String.eqb x) a) b.
