"""Correspondence of Model/FullParse.v (the whole rules-file grammar) with rules/parser.rs `rules_file`: the hook `ast` parses a rules file
and dumps the AST (or the error); the model parses the same bytes inside Coq (vm_compute) into a generic tree; this module turns the
dumped AST into the same tree shape and `rules_file_obs` compares the two (positions and the derived query of a type block are not
part of the tree)."""
import json, random, re
from . import coqterm as ct
from . import impl, model, gen
from .common import *

HEADER = ('From Coq Require Import String ZArith NArith List.\nFrom GV.Model Require Import Ast.\nFrom GV.Model Require Import ValueParse FullParse.\nImport ListNotations.\n')


def leaf(s):
    return '(Leaf %s)' % ct.cstr(s)


def T(tag, kids):
    return '(T %s %s)' % (ct.cstr(tag), ct.clist(kids))


def tbool(b):
    return leaf('true' if b else 'false')


def topt(x):
    return T('none', []) if x is None else T('some', [x])


def tostr(j):
    j = j['O'] if isinstance(j, dict) and 'O' in j else j
    return topt(None if j is None else leaf(ct.S(j)))


def lit_tree(j):
    t = j[0]
    if t == 'PNull':
        return T('null', [])
    if t == 'PString':
        return T('str', [leaf(ct.S(j[2]))])
    if t == 'PRegex':
        return T('regex', [leaf(ct.S(j[2]))])
    if t == 'PBool':
        return T('bool', [tbool(j[2])])
    if t == 'PInt':
        return T('int', [leaf(str(j[2]))])
    if t == 'PChar':
        c = j[2]['C']
        if c >= 128:
            return T('nonascii-char', [])
        return T('char', [leaf(chr(c))])
    if t == 'PList':
        return T('list', [lit_tree(x) for x in ct.L(j[2])])
    if t == 'PMap':
        return T('map', [T('kv', [leaf(ct.S(kv[1])), lit_tree(kv[2])]) for kv in ct.L(j[2][2])])
    if t == 'PRangeInt':
        return T('rint', [leaf(str(j[2])), leaf(str(j[3])), leaf(str(j[4]))])
    if t == 'PRangeChar':
        if j[2]['C'] >= 128 or j[3]['C'] >= 128:
            return T('nonascii-char', [])
        return T('rchar', [leaf(chr(j[2]['C'])), leaf(chr(j[3]['C'])), leaf(str(j[4]))])
    return T('outside', [leaf(t)])        # floats


def cmp_tree(j):
    return T('cmp', [leaf(j[1]), tbool(j[2])])


def value_tree(w):
    if w[0] == 'LValue':
        return T('Lit', [lit_tree(w[1])])
    if w[0] == 'LAccess':
        return T('Query', [query_tree(w[1])])
    fx = w[1]
    return T('Call', [leaf(fx[2]), T('args', [value_tree(x) for x in ct.L(fx[1])])])


def part_tree(p):
    t = p[0]
    if t == 'This':
        return T('This', [])
    if t == 'Key':
        return T('Key', [leaf(ct.S(p[1]))])
    if t == 'AllValues':
        return T('AllValues', [tostr(p[1])])
    if t == 'AllIndices':
        return T('AllIndices', [tostr(p[1])])
    if t == 'Index':
        return T('Index', [leaf(str(p[1]))])
    if t == 'Filter':
        return T('Filter', [tostr(p[1]), cnf_tree(p[2], guard_tree)])
    if t == 'MapKeyFilter':
        return T('Keys', [tostr(p[1]), cmp_tree(p[2]), value_tree(p[3])])
    raise ct.TranslateError('part %r' % t)


def query_tree(aq):
    return T('Q', [tbool(aq[2]), T('parts', [part_tree(p) for p in ct.L(aq[1])])])


def cnf_tree(j, each):
    return T('cnf', [T('or', [each(x) for x in ct.L(d)]) for d in ct.L(j)])


def access_clause_tree(ac):
    w = ac[3]
    w = w['O'] if isinstance(w, dict) and 'O' in w else w
    return T('Clause', [tbool(ac[6]), query_tree(ac[1]), cmp_tree(ac[2]), topt(None if w is None else value_tree(w)), tostr(ac[4])])


def named_tree(g):
    return T('Named', [leaf(ct.S(g[1])), tbool(g[2]), tostr(g[3])])


def pcall_tree(p):
    g = p[2]
    return T('PCall', [tbool(g[2]), leaf(ct.S(g[1])), T('args', [value_tree(x) for x in ct.L(p[1])]), tostr(g[3])])


def block_tree(b, each):
    return T('Block', [T('lets', [let_tree(e) for e in ct.L(b[1])]), cnf_tree(b[2], each)])


def let_tree(e):
    return T('Let', [leaf(ct.S(e[1])), value_tree(e[2])])


def when_tree(w):
    if w[0] == 'WClause':
        return access_clause_tree(w[1])
    if w[0] == 'WNamedRule':
        return named_tree(w[1])
    return pcall_tree(w[1])


def guard_tree(g):
    t = g[0]
    if t == 'GClause':
        return access_clause_tree(g[1])
    if t == 'GNamedRule':
        return named_tree(g[1])
    if t == 'GParameterizedNamedRule':
        return pcall_tree(g[1])
    if t == 'GBlockClause':
        return T('BlockClause', [query_tree(g[1]), tbool(g[4]), block_tree(g[2], guard_tree)])
    if t == 'GWhenBlock':
        return T('When', [cnf_tree(g[1], when_tree), block_tree(g[2], guard_tree)])
    raise ct.TranslateError('guard clause %r' % t)


def rule_clause_tree(r):
    t = r[0]
    if t == 'RClause':
        return T('RClause', [guard_tree(r[1])])
    if t == 'RWhenBlock':
        return T('RWhen', [cnf_tree(r[1], when_tree), block_tree(r[2], guard_tree)])
    conds = r[2]
    conds = conds['O'] if isinstance(conds, dict) and 'O' in conds else conds
    return T('RType', [T('Type', [leaf(ct.S(r[1])), topt(None if conds is None else cnf_tree(conds, when_tree)), block_tree(r[3], guard_tree)])])


def rule_tree(r):
    conds = r[2]
    conds = conds['O'] if isinstance(conds, dict) and 'O' in conds else conds
    return T('Rule', [leaf(ct.S(r[1])), topt(None if conds is None else cnf_tree(conds, when_tree)), block_tree(r[3], rule_clause_tree)])


def file_tree(rf):
    return T('File', [T('lets', [let_tree(e) for e in ct.L(rf[1])]), T('rules', [rule_tree(r) for r in ct.L(rf[2])]),
                      T('prules', [T('PRule', [T('params', [leaf(ct.S(n)) for n in ct.L(p[1])]), rule_tree(p[2])]) for p in ct.L(rf[3])])])


def impl_term(res):
    if res[0] == 'Ok':
        return '(IFileOk %s)' % file_tree(res[1])
    if res[0] == 'Empty':
        return 'IFileEmpty'
    return 'IFileErr'


def run(texts, wd, tag='fullparse'):
    """-> list of (text, verdict, impl result); verdict in FVAgree | FVAgreeReject | FVNotModelled | FVDisagree | FVOutOfFuel | crash"""
    from . import vparse
    res = impl.run_ops_parallel([{'op': 'ast', 'rules': t} for t in texts], wd, tag + '.ast')
    cands = sorted(set().union(*[vparse.regex_candidates(t) for t in texts])) if texts else []
    cand_txt = []
    for c in cands:
        try:
            cand_txt.append(c.decode('utf-8'))
        except UnicodeDecodeError:
            pass
    rres = impl.run_ops_parallel([{'op': 'regex', 're': c, 'text': ''} for c in cand_txt], wd, tag + '.re') if cand_txt else []
    valid = {}
    for c, r in zip(cand_txt, rres):
        rr = r.get('res')
        valid[c] = bool(rr) and rr[0] == 'Ok'
    cases, out = [], [None] * len(texts)
    for i, (t, r) in enumerate(zip(texts, res)):
        if 'res' not in r:
            out[i] = (t, 'crash', r)
            continue
        mine = [c for c in cand_txt if c.encode('utf-8') in vparse.regex_candidates(t)] if '/' in t else []
        table = ct.clist(['(%s, %s)' % (ct.cstr(c), ct.cbool(valid[c])) for c in mine])
        rv = '(fun s => match assoc s %s with Some b => b | None => false end)' % table
        try:
            it = impl_term(r['res'])
        except (ct.TranslateError, KeyError, IndexError, TypeError):
            it = 'IFileErr'
        cases.append((i, '', 'rules_file_obs %s "rules.guard" %s %s' % (rv, ct.cstr(t), it)))
        out[i] = (t, None, r['res'])
    verdicts, errors = model.eval_cases(cases, wd, tag, header=HEADER, per_file=25)
    if errors:
        raise ToolingError('model evaluation failed: %r' % (errors[:1],))
    for i, _, _ in cases:
        out[i] = (out[i][0], verdicts.get(i, 'NoModelOutput'), out[i][2])
    return out


_FLOAT = re.compile(r'(?<![A-Za-z_\d.])(-?\d+)\.\d+(?:[eE][+-]?\d+)?|(?<![A-Za-z_\d.])(-?\d+)[eE][+-]\d+')


def without_floats(text):
    """the same rules text with every float literal replaced by its integer part (floats are outside the model)"""
    return _FLOAT.sub(lambda m: m.group(1) or m.group(2), text)


def mutate(text, rng):
    if not text:
        return text
    b = list(text)
    k = rng.randrange(len(b))
    op = rng.random()
    alphabet = list('[]{}().,*%"\'\\#<>=!| \n-1ax_:') + ['when ', 'rule ', 'let ', ' or ', 'not ', '<<', '>>', 'AWS::A::B ', 'some ', 'this', 'keys ']
    if op < 0.35:
        del b[k]
    elif op < 0.7:
        b.insert(k, rng.choice(alphabet))
    elif op < 0.85:
        b[k] = rng.choice(alphabet)
    elif op < 0.93:
        j = rng.randrange(len(b))
        lo, hi = min(k, j), max(k, j)
        del b[lo:hi]
    else:
        b = b[:k]
    return ''.join(b)


HAND = ['rule r {\n  a exists\n}\n', 'a exists\nb == 1 or c == 2\n', 'AWS::S3::Bucket {\n  Properties.Name exists\n}\n', 'AWS::S3::Bucket Properties.Name exists\n', 'AWS::S3::Bucket when a exists {\n  b exists\n}\n',
        'AWS::S3::Bucket WHEN a exists {\n  b exists\n}\n', 'Custom::Thing {\n  a exists\n}\n', 'AWS::A::B::MODULE {\n  a exists\n}\n', 'AWS::A::B{\n a exists\n}\n', 'AWS::A::B or AWS::C::D { a exists }\n',
        'AWS::A::B { a exists } or AWS::C::D { b exists }\n', '', '# only a comment', '\n\n', 'rule {', 'rule r', 'rule r {', 'rule r {}', 'rule r { }', 'rule r when { a exists }', 'rule r when a exists { b exists }',
        'rule r WHEN a exists or b exists\n  c exists { d exists }', 'rule r(p) { %p exists }', 'rule r(p, q) {\n  %p == %q\n}\n', 'rule r( p ,q ) { %p exists }', 'rule r() { a exists }', 'rule r(p { a exists }',
        'rule r(1) { a exists }', 'rule  r\n{\n  let x = a\n  %x exists\n  let y := [1, 2]\n  b in %y\n}\n', 'let x = 1\nlet y = a.b\nlet z = count(a)\nrule r { %x == 1 }\n', 'let x = \n', 'let x == 1\n',
        'rule r {\n  when a exists {\n    b exists\n    when c exists { d exists }\n  }\n}\n', 'rule r {\n  a {\n    b exists\n    c { d exists }\n  }\n}\n', 'rule r {\n  a !empty {\n    b exists\n  }\n}\n',
        'rule r {\n  a not empty {\n    b exists\n  }\n}\n', 'rule r {\n  a empty { b exists }\n}\n', 'rule r {\n  chk(a, "x")\n  not chk(b) <<m>>\n}\nrule chk(p, q) { %p exists }\n', 'rule r {\n  other\n  not other or third <<m>>\n}\n',
        "rule r {\n  a[ b[ c == 1 ] exists ].d[ k | e { f exists } ] !empty\n}\n", "rule r {\n  a[ when b exists { c exists } ] exists\n}\n", "rule r {\n  a[ keys == 'x' ][ k | keys in ['a'] ] exists\n}\n",
        'when a exists {\n  b exists\n}\n', 'when a exists {\n  other\n  c == 1\n}\nrule other { a exists }\n', 'when a exists { b exists } or c exists\n', 'a {\n  b exists\n}\nAWS::X::Y { c exists }\nlet v = 1\nd == %v\n',
        'rule a {\n  x exists\n}\nrule a {\n  y exists\n}\n', 'rule r {\n  AWS::X::Y {\n    a exists\n  }\n  AWS::X::Z b exists\n  when c exists {\n    other\n  }\n}\n', 'rule r { a exists } rule s { b exists }',
        'rule r { a exists }\ngarbage {', 'rule r {\n  a == "open\n}\n', 'rule r {\n  a exists <<open\n}\n', 'rule r {\n  a in\n}\n', 'rule rulex { a exists }', 'rulex { a exists }', 'rule\nr { a exists }', 'rule r# c\n{ a exists }',
        'rule r {\n  let x = a\n}\n', 'rule r {\n  a exists\n  let x = b\n}\n', 'rule r { a exists\n} # trailing', 'rule r { a.b.c[0].*["k"] == [1, {a: "x"}, /re/, r(1,5), null, true] }', 'rule when { a exists }', 'rule r when when { a exists }']


def corpus(seed, n):
    rng = random.Random(seed * 7001 + 14)
    texts = list(HAND)
    styles = [None, {'upper_kw': True}, {'indent': '', 'comments': True}, {'or_form': '|OR|', 'not_form': '!', 'assign': ':='}, {'quote': "'", 'extra_nl': True, 'list_nl': True}]
    while len(texts) < n:
        doc, prog = gen.gen_pair(rng, {'cycles': 0.1, 'functions': rng.random() < 0.5})
        st = rng.choice(styles)
        try:
            t = gen.render_file(prog, st) if st else gen.render_file(prog)
        except Exception:
            t = gen.render_file(prog)
        texts.append(without_floats(t))
        if rng.random() < 0.15:
            texts.append(t)
        if rng.random() < 0.6:
            texts.append(mutate(without_floats(t), rng))
    seen, out = set(), []
    for t in texts:
        if t not in seen:
            seen.add(t); out.append(t)
    return out


def check_files(ctx, tag, n):
    """the whole grammar: Model/FullParse.v against parser.rs `rules_file` through the hook `ast` on hand-written files for every construct,
    generated programs under several spellings (float literals replaced: they are outside the model) and one-token mutations of them"""
    texts = corpus(ctx.seed, n)
    out = run(texts, ctx.wd, tag)
    stats = {}
    for t, v, r in out:
        stats[v] = stats.get(v, 0) + 1
        if v in ('FVAgree', 'FVAgreeReject', 'FVNotModelled'):
            continue
        ctx.failing('rules file %r..: `rules_file` answers %s, the model of the whole grammar says otherwise (%s)' % (t[:70], json.dumps(r)[:160], v),
                    {'class': 'file-grammar-correspondence', 'rules': t, 'impl': json.dumps(r)[:2000], 'verdict': v}, found=False)
    ctx.coverage['rules_file_texts'] = len(texts)
    ctx.coverage['rules_file_verdicts'] = stats
    ctx.coverage['evaluations'] += len(texts)
    return stats.get('FVAgree', 0)
