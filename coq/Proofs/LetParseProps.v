(* LetParseProps.v — assignments (Model/LetParse.v): every spelling `let <layout> name <layout> = | := <layout> value` parses to the
   assignment of that value to that name; `=` and `:=` are one sign; the same for a right-hand side that is a %variable query. *)
From Coq Require Import Lia.
From GV.Model Require Import Ast.
From GV.Model Require Import ValueParse QueryParse OpParse ClauseParse CnfParse FilterParse ClauseFParse LetParse.
From GV.Proofs Require Import LexProps ValueParseProps ValueSpellProps QueryParseProps QuerySpellProps OpParseProps ClauseParseProps FilterParseProps.
Local Open Scope string_scope.
Local Open Scope nat_scope.

Ltac norm := repeat first [ rewrite sapp_assoc in * | progress cbn [append] in * ].
Ltac lens := repeat first [ rewrite len_app in * | progress cbn [String.length] in * ].

Section Spelling.
Variable rv : string -> bool.

Lemma assign_sign eq Y : In eq kw_assign -> alt_tags kw_assign (eq +++ Y) = Some Y.
Proof. unfold kw_assign. intros [<-|[<-|[]]]; reflexivity. Qed.

Lemma sign_name_end w2 eq Y : layout w2 -> In eq kw_assign -> name_end (w2 +++ (eq +++ Y)).
Proof.
  intros Hw He. destruct Hw as [|a w Ha Hw|body w Hb Hw]; cbn [append name_end].
  - unfold kw_assign in He. destruct He as [<-|[<-|[]]]; cbv; split; reflexivity.
  - destruct a as [[] [] [] [] [] [] [] []]; cbv in Ha; try discriminate; cbv; split; reflexivity.
  - cbv. split; reflexivity.
Qed.

Lemma sign_solid eq Y : In eq kw_assign -> skip_ws_comments (eq +++ Y) = eq +++ Y.
Proof. unfold kw_assign. intros [<-|[<-|[]]]; cbn [append]; now apply skip_solid. Qed.

(* the common prefix: `let`, layout, the name, layout, the sign *)
Lemma let_prefix n w1 name w2 eq Y : layout w1 -> w1 <> EmptyString -> wf_name name -> layout w2 -> In eq kw_assign ->
  assignment rv n ("let" +++ (w1 +++ (name +++ (w2 +++ (eq +++ Y))))) =
  match parse_value rv n Y with
  | POk l r => POk (mkPL name (LVLit l)) r
  | PErr =>
      match function_like (skip_ws_comments Y) with
      | PErr =>
          match access_f rv n (skip_ws_comments Y) with
          | POk q r => POk (mkPL name (LVQuery q)) r
          | PErr => PFail
          | PFail => PFail
          | PUnk => PUnk
          | POof => POof
          end
      | PFail => PFail
      | _ => PUnk
      end
  | PFail => PFail
  | PUnk => PUnk
  | POof => POof
  end.
Proof.
  intros Hw1 Hne Hname Hw2 Heq. unfold assignment. cbn [append alt_tags kw_let_keyword str_prefix Ascii.eqb Bool.eqb andb drop String.length].
  rewrite (layout_nonempty_starts w1 _ Hw1 Hne). rewrite (skip_layout w1 _ Hw1).
  pose proof Hname as (a & r & -> & Ha & Hr). destruct (alpha_facts a Ha) as (_ & _ & _ & A1 & A2 & _).
  cbn [append]. rewrite (skip_solid a _ A1 A2). change (String a (r +++ (w2 +++ (eq +++ Y)))) with (String a r +++ (w2 +++ (eq +++ Y))).
  rewrite (var_name_spelled (String a r) _ Hname (sign_name_end w2 eq Y Hw2 Heq)).
  rewrite (skip_layout w2 _ Hw2), (sign_solid eq Y Heq), (assign_sign eq Y Heq). reflexivity.
Qed.

Theorem let_spelling_parses : forall w1 name w2 eq w3 t rest,
  layout w1 -> w1 <> EmptyString -> wf_name name -> layout w2 -> In eq kw_assign -> layout w3 -> wf rv t -> follow t rest ->
  assignment_top rv ("let" +++ (w1 +++ (name +++ (w2 +++ (eq +++ (w3 +++ (render t +++ rest))))))) = POk (mkPL name (LVLit (denote t))) rest.
Proof.
  intros w1 name w2 eq w3 t rest Hw1 Hne Hname Hw2 Heq Hw3 Ht Hf. unfold assignment_top.
  rewrite (let_prefix _ w1 name w2 eq _ Hw1 Hne Hname Hw2 Heq).
  rewrite (parse_value_layout rv _ w3 _ Hw3). rewrite (parse_value_fuel_irrelevant rv (render t +++ rest)).
  - now rewrite (spelling_parses rv t rest Ht Hf).
  - unfold value_fuel. lens. lia.
Qed.

Corollary assignment_signs_agree : forall w1 w1' name w2 w2' w3 w3' t t' rest,
  layout w1 -> w1 <> EmptyString -> layout w1' -> w1' <> EmptyString -> wf_name name -> layout w2 -> layout w2' -> layout w3 -> layout w3' ->
  wf rv t -> wf rv t' -> follow t rest -> follow t' rest -> denote t = denote t' ->
  assignment_top rv ("let" +++ (w1 +++ (name +++ (w2 +++ ("=" +++ (w3 +++ (render t +++ rest))))))) =
  assignment_top rv ("let" +++ (w1' +++ (name +++ (w2' +++ (":=" +++ (w3' +++ (render t' +++ rest))))))).
Proof.
  intros. rewrite (let_spelling_parses w1 name w2 "=" w3 t rest); try assumption; [|unfold kw_assign; cbn; auto].
  rewrite (let_spelling_parses w1' name w2' ":=" w3' t' rest); try assumption; [|unfold kw_assign; cbn; auto]. congruence.
Qed.

(* a %variable query on the right *)
Theorem let_query_spelling_parses : forall w1 name w2 eq w3 v ps rest,
  layout w1 -> w1 <> EmptyString -> wf_name name -> layout w2 -> In eq kw_assign -> layout w3 -> qwf (mkCQ None (CVar v) ps) -> query_end rest ->
  assignment_top rv ("let" +++ (w1 +++ (name +++ (w2 +++ (eq +++ (w3 +++ (qrender (mkCQ None (CVar v) ps) +++ rest))))))) =
  POk (mkPL name (LVQuery (embed (qdenote (mkCQ None (CVar v) ps))))) rest.
Proof.
  intros w1 name w2 eq w3 v ps rest Hw1 Hne Hname Hw2 Heq Hw3 Hq Hr. unfold assignment_top.
  match goal with |- assignment rv ?k _ = _ => set (n := k) end.
  rewrite (let_prefix n w1 name w2 eq _ Hw1 Hne Hname Hw2 Heq).
  assert (Eq2 : qrender (mkCQ None (CVar v) ps) +++ rest = String "%" (v +++ (render_parts ps +++ rest))).
  { unfold qrender. cbn [c_some c_head c_parts render_some render_head]. norm. reflexivity. }
  rewrite (parse_value_layout rv n w3 _ Hw3). rewrite Eq2. unfold n at 1. rewrite (parse_value_closer rv _ "%" _ eq_refl). fold n.
  rewrite (skip_layout w3 _ Hw3). rewrite (skip_solid "%" _ eq_refl eq_refl).
  assert (Ef : function_like (String "%" (v +++ (render_parts ps +++ rest))) = PErr).
  { unfold function_like. now rewrite (var_name_not "%" _ eq_refl). }
  rewrite Ef. rewrite <- Eq2.
  pose proof (query_spelling_parses (mkCQ None (CVar v) ps) rest Hq Hr) as Ea.
  unfold n. unfold assignment_top in *.
  match goal with |- context [access_f rv (S ?m)] =>
    rewrite (access_f_extends rv (access_fuel (qrender (mkCQ None (CVar v) ps) +++ rest)) _ _ Ea ltac:(discriminate) ltac:(discriminate) m) end.
  - reflexivity.
  - unfold access_fuel. lens. lia.
Qed.

End Spelling.
