(* OpSoundProps.v — the converse for the operator grammar: whatever Model/OpParse.value_cmp accepts as an operator IS one of the
   documented spellings - a symbol, a keyword of the tables in one of its two cases, and in front of a keyword `not` / `NOT`
   followed by blanks, or `!` - and the answer is the operator that spelling stands for.  Nothing else is read as an operator. *)
From Coq Require Import Lia.
From GV.Model Require Import Ast.
From GV.Model Require Import ValueParse OpParse.
From GV.Proofs Require Import LexProps ValueParseProps ValueSpellProps OpParseProps.
Local Open Scope string_scope.
Local Open Scope nat_scope.

Lemma str_prefix_split : forall t s, str_prefix t s = true -> s = t +++ drop (len t) s.
Proof.
  induction t as [|a t IH]; intros s H; cbn in *; [reflexivity|].
  destruct s as [|b s]; [discriminate|]. apply andb_prop in H as [E H]. apply Ascii.eqb_eq in E. subst b. cbn. f_equal. now apply IH.
Qed.

Lemma alt_tags_inv : forall tags s r, alt_tags tags s = Some r -> exists t, In t tags /\ s = t +++ r.
Proof.
  induction tags as [|t tags IH]; intros s r H; cbn in H; [discriminate|].
  destruct (str_prefix t s) eqn:E.
  - inversion H; subst. exists t. split; [now left|]. now apply str_prefix_split.
  - destruct (IH s r H) as (u & Hu & Es). exists u. split; [now right|exact Es].
Qed.

Lemma span_blank_split : forall s a b, span_while is_blank s = (a, b) -> s = a +++ b /\ blanks a.
Proof.
  induction s as [|c s IH]; intros a b H; cbn in H.
  - inversion H; subst. split; reflexivity.
  - destruct (is_blank c) eqn:E.
    + destruct (span_while is_blank s) as [a' b'] eqn:E2. inversion H; subst. destruct (IH a' b eq_refl) as [-> Hb].
      split; [reflexivity|]. unfold blanks in *. cbn. now rewrite E, Hb.
    + inversion H; subst. split; reflexivity.
Qed.

(* how a negation in front of an operator can be written *)
Inductive negation_spelling : string -> Prop :=
| ns_word : forall w b, In w kw_not_words -> blanks b -> b <> EmptyString -> negation_spelling (w +++ b)
| ns_bang : negation_spelling "!".

Lemma not_kw_inv s r : not_kw s = Some r -> exists p, negation_spelling p /\ s = p +++ r.
Proof.
  unfold not_kw, kw_not_words, kw_not_chars. cbn [not_words]. unfold not_word.
  assert (G : forall t, In t ["not"; "NOT"] -> forall r0,
     (if str_prefix t s then match span_while is_blank (drop (len t) s) with (EmptyString, _) => None | (_, r1) => Some r1 end else None) = Some r0 ->
     exists p, negation_spelling p /\ s = p +++ r0).
  { intros t Ht r0. destruct (str_prefix t s) eqn:E; [|discriminate]. apply str_prefix_split in E.
    destruct (span_while is_blank (drop (len t) s)) as [a b] eqn:E2. apply span_blank_split in E2 as [E2 Hb]. destruct a as [|c a]; [discriminate|].
    intros H. inversion H; subst r0. exists (t +++ String c a). split.
    - apply ns_word; [exact Ht|exact Hb|discriminate].
    - rewrite E at 1. rewrite E2. now rewrite sapp_assoc. }
  destruct (if str_prefix "not" s then _ else None) eqn:E1.
  - intros H. inversion H; subst. apply (G "not"); [now left|exact E1].
  - destruct (if str_prefix "NOT" s then _ else None) eqn:E2.
    + intros H. inversion H; subst. apply (G "NOT"); [right; now left|exact E2].
    + intros H. apply alt_tags_inv in H as (t & [<-|[]] & Es). exists "!". split; [constructor|exact Es].
Qed.

(* the documented spellings of an operator, with what each stands for *)
Inductive operator_spelling : string -> cmp_op * bool -> Prop :=
| os_sym : forall s c, In (s, c) [("==", (OEq, false)); ("!=", (OEq, true)); (">=", (OGe, false)); ("<=", (OLe, false)); (">", (OGt, false)); ("<", (OLt, false))] ->
    operator_spelling s c
| os_kw : forall o t, is_keyword_spelling o t -> operator_spelling t (o, false)
| os_neg : forall p o t, negation_spelling p -> is_keyword_spelling o t -> operator_spelling (p +++ t) (o, true).

Lemma keyword_op_inv s o r : keyword_op s = POk o r -> exists t, is_keyword_spelling o t /\ s = t +++ r.
Proof.
  unfold keyword_op, is_type_ops. intros H.
  repeat (apply palt_ok in H as [H|[_ H]];
    [apply tagged_ok in H as [-> H]; apply alt_tags_inv in H as (t & Ht & Es); exists t; split; [|exact Es];
     eexists; split; [|exact Ht]; unfold op_tables; cbn; auto 12|]).
  apply tagged_ok in H as [-> H]. apply alt_tags_inv in H as (t & Ht & Es). exists t. split; [|exact Es].
  eexists; split; [|exact Ht]. unfold op_tables; cbn; auto 12.
Qed.

Theorem only_documented_operators : forall s c r, value_cmp s = POk c r -> exists sp, operator_spelling sp c /\ s = sp +++ r.
Proof.
  intros s c r. unfold value_cmp. destruct (str_prefix "<<" s); [discriminate|]. intros H. apply palt_ok in H as [H|[_ H]].
  - unfold symbol_op in H.
    repeat (apply palt_ok in H as [H|[_ H]];
      [apply tagged_ok in H as [-> H]; apply alt_tags_inv in H as (t & [<-|[]] & Es); eexists; split; [apply os_sym; cbn; auto 8|exact Es]|]).
    apply tagged_ok in H as [-> H]. apply alt_tags_inv in H as (t & [<-|[]] & Es). eexists; split; [apply os_sym; cbn; auto 8|exact Es].
  - unfold other_operations in H. destruct (not_kw s) as [r1|] eqn:En.
    + apply pmap_ok in H as (o & H & ->). apply keyword_op_inv in H as (t & Ht & ->). apply not_kw_inv in En as (p & Hp & ->).
      exists (p +++ t). split; [now apply os_neg|]. now rewrite sapp_assoc.
    + apply pmap_ok in H as (o & H & ->). apply keyword_op_inv in H as (t & Ht & ->). exists t. split; [now apply os_kw|reflexivity].
Qed.
