(* CliProps.v — the exit-code folds of validate and test encode the outcome (C06, C07, C12 use these). *)
From Coq Require Import Lia Permutation.
From GV.Model Require Import Cli.
Open Scope Z_scope.

Ltac codes := unfold failure_status_code, success_status_code, error_status_code,
  test_error_status_code, test_failure_status_code, main_err_exit_arg, process_status in *.

Lemma against_data_spec : forall l acc,
  against_data l acc = if existsb is_err l then None else Some (acc || existsb is_fail l)%bool.
Proof.
  induction l as [|d l IH]; intros acc; cbn [against_data existsb].
  - now rewrite orb_false_r.
  - destruct d; cbn [is_err is_fail orb]; rewrite ?IH; try reflexivity.
    + destruct (existsb is_err l); [reflexivity|]. now rewrite orb_true_r.
Qed.

Definition file_code (r : rules_outcome) : Z :=
  if is_parse_err r then 5 else if existsb is_fail (row r) then 19 else 0.

Lemma evaluate_rule_spec : forall r,
  evaluate_rule r = if existsb is_err (row r) then None else Some (file_code r).
Proof.
  intros [| |l]; cbn; try reflexivity.
  rewrite against_data_spec. unfold file_code. cbn.
  destruct (existsb is_err l); [reflexivity|]. cbn. now destruct (existsb is_fail l).
Qed.

Definition code3 (c : Z) : Prop := c = 0 \/ c = 5 \/ c = 19.

Lemma plain_loop_err : forall rs e, some_err rs = true -> plain_loop rs e = CmdErr.
Proof.
  induction rs as [|r rs IH]; intros e H; cbn in H; [discriminate|].
  cbn [plain_loop]. rewrite evaluate_rule_spec.
  destruct (existsb is_err (row r)) eqn:E; [reflexivity|]. cbn in H. now apply IH.
Qed.

Lemma plain_loop_inv : forall rs e,
  some_err rs = false -> code3 e ->
  exists c, plain_loop rs e = Code c /\ code3 c /\
    (c = 0 <-> e = 0 /\ all_parsed rs = true /\ some_fail rs = false) /\
    (c = 19 -> e = 19 \/ some_fail rs = true) /\
    (c = 5 -> e = 5 \/ all_parsed rs = false).
Proof.
  induction rs as [|r rs IH]; intros e Herr He.
  - exists e. cbn. repeat split; auto; intros; tauto.
  - cbn in Herr. apply orb_false_iff in Herr as [Hr Hrs].
    cbn [plain_loop]. rewrite evaluate_rule_spec, Hr.
    set (e' := if Z.eqb (file_code r) success_status_code then e else file_code r).
    assert (He' : code3 e').
    { subst e'. unfold file_code, code3. codes.
      destruct (is_parse_err r), (existsb is_fail (row r)); cbn; auto. }
    destruct (IH e' Hrs He') as (c & Hc & Hc3 & H0 & H19 & H5).
    exists c. split; [exact Hc|]. split; [exact Hc3|].
    cbn [all_parsed some_fail forallb existsb].
    subst e'. unfold file_code in *. codes. unfold code3 in *.
    destruct (is_parse_err r) eqn:Ep, (existsb is_fail (row r)) eqn:Ef; cbn in *;
      repeat split; intros; try tauto; try lia;
      repeat match goal with
             | H : _ <-> _ |- _ => destruct H
             | H : _ /\ _ |- _ => destruct H
             end; try (intuition (try lia; try congruence)).
Qed.

(* ---- structured ---- *)

Definition parsed_rows (rs : list rules_outcome) : list (list data_outcome) :=
  flat_map (fun r => match r with RParsed l => [l] | _ => [] end) rs.

Lemma parse_fold_spec : forall rs e,
  parse_fold rs e = ((if all_parsed rs then e else error_status_code), parsed_rows rs).
Proof.
  induction rs as [|r rs IH]; intros e; cbn; [reflexivity|].
  destruct r; cbn.
  - rewrite IH. now destruct (all_parsed rs).
  - apply IH.
  - now rewrite IH.
Qed.

Lemma common_cells_spec : forall cells e,
  common_cells cells e = if existsb is_err cells then CmdErr
                         else Code (if existsb is_fail cells then failure_status_code else e).
Proof.
  induction cells as [|d l IH]; intros e; cbn; [reflexivity|].
  destruct d; cbn; rewrite ?IH; try reflexivity.
  destruct (existsb is_err l); [reflexivity|]. now destruct (existsb is_fail l).
Qed.

Lemma existsb_flat_map : forall A B (f : A -> list B) (p : B -> bool) l,
  existsb p (flat_map f l) = existsb (fun x => existsb p (f x)) l.
Proof.
  induction l as [|x l IH]; cbn; [reflexivity|]. now rewrite existsb_app, IH.
Qed.

Lemma existsb_ext_eq : forall A (f g : A -> bool) l, (forall x, f x = g x) -> existsb f l = existsb g l.
Proof. intros A f g l H. induction l as [|x l IH]; cbn; [reflexivity|]. now rewrite H, IH. Qed.

Lemma existsb_column : forall (p : data_outcome -> bool) rows k,
  existsb p (column rows k) = existsb (fun l => match nth_error l k with Some d => p d | None => false end) rows.
Proof.
  intros. unfold column. rewrite existsb_flat_map. apply existsb_ext_eq. intros l.
  destruct (nth_error l k); cbn; [now rewrite orb_false_r|reflexivity].
Qed.

Lemma existsb_nth_seq : forall (p : data_outcome -> bool) l n,
  List.length l = n ->
  existsb (fun k => match nth_error l k with Some d => p d | None => false end) (seq 0 n) = existsb p l.
Proof.
  intros p l n Hn.
  apply eq_true_iff_eq. rewrite !existsb_exists. split.
  - intros (k & _ & Hk). destruct (nth_error l k) eqn:E; [|discriminate].
    exists d. split; [eapply nth_error_In; eauto|exact Hk].
  - intros (d & Hin & Hp). apply In_nth_error in Hin as (k & Hk).
    exists k. split.
    + apply in_seq. split; [lia|]. cbn. rewrite <- Hn. apply nth_error_Some. congruence.
    + now rewrite Hk.
Qed.

Lemma existsb_swap : forall A B (p : A -> B -> bool) la lb,
  existsb (fun a => existsb (fun b => p a b) lb) la = existsb (fun b => existsb (fun a => p a b) la) lb.
Proof.
  intros. apply eq_true_iff_eq. rewrite !existsb_exists. split.
  - intros (a & Ha & H). apply existsb_exists in H as (b & Hb & H).
    exists b. split; [auto|]. apply existsb_exists. eauto.
  - intros (b & Hb & H). apply existsb_exists in H as (a & Ha & H).
    exists a. split; [auto|]. apply existsb_exists. eauto.
Qed.

Lemma existsb_data_major : forall (p : data_outcome -> bool) rows n,
  forallb (fun l => Nat.eqb (List.length l) n) rows = true ->
  existsb p (data_major rows n) = existsb (existsb p) rows.
Proof.
  intros p rows n Hw. unfold data_major. rewrite existsb_flat_map.
  erewrite existsb_ext_eq; [|intros k; apply existsb_column].
  rewrite existsb_swap.
  apply eq_true_iff_eq. rewrite !existsb_exists.
  rewrite forallb_forall in Hw.
  split; intros (l & Hl & H); exists l; (split; [exact Hl|]).
  - rewrite existsb_nth_seq in H; [exact H|]. apply Nat.eqb_eq. now apply Hw.
  - rewrite existsb_nth_seq; [exact H|]. apply Nat.eqb_eq. now apply Hw.
Qed.

Lemma existsb_parsed_rows : forall (p : data_outcome -> bool) rs,
  existsb (existsb p) (parsed_rows rs) = existsb (fun r => existsb p (row r)) rs.
Proof.
  intros. unfold parsed_rows. rewrite existsb_flat_map. apply existsb_ext_eq.
  intros [| |l]; cbn; try reflexivity. now rewrite orb_false_r.
Qed.

Lemma well_shaped_rows : forall n rs,
  well_shaped n rs = true -> forallb (fun l => Nat.eqb (List.length l) n) (parsed_rows rs) = true.
Proof.
  induction rs as [|r rs IH]; intros H; [reflexivity|].
  cbn [well_shaped forallb] in H. apply andb_true_iff in H as [H1 H2].
  unfold parsed_rows. cbn [flat_map]. fold (parsed_rows rs).
  rewrite forallb_app. rewrite (IH H2), andb_true_r.
  destruct r; cbn; auto. now rewrite H1.
Qed.

Definition structured_spec (rs : list rules_outcome) : cmd_result :=
  if some_err rs then CmdErr
  else Code (if some_fail rs then 19 else if all_parsed rs then 0 else 5).

Lemma structured_exit_spec : forall n rs,
  well_shaped n rs = true -> validate_exit VStructured true n rs = structured_spec rs.
Proof.
  intros n rs Hw. unfold validate_exit, structured_spec. cbn [negb].
  rewrite parse_fold_spec. cbv beta iota. rewrite common_cells_spec.
  rewrite !existsb_data_major by now apply well_shaped_rows.
  rewrite !existsb_parsed_rows. fold (some_err rs) (some_fail rs).
  destruct (some_err rs); [reflexivity|]. codes.
  now destruct (some_fail rs), (all_parsed rs).
Qed.

(* ---- junit ---- *)

Lemma junit_cells_spec : forall cells f,
  junit_cells cells f = if existsb is_err cells then None
                        else Some (f + List.length (filter is_fail cells))%nat.
Proof.
  induction cells as [|d l IH]; intros f; cbn; [now rewrite Nat.add_0_r|].
  destruct d; cbn; rewrite ?IH; try reflexivity.
  destruct (existsb is_err l); [reflexivity|]. f_equal. lia.
Qed.

Lemma filter_nonempty_existsb : forall A (p : A -> bool) l,
  Nat.ltb 0 (List.length (filter p l)) = existsb p l.
Proof.
  induction l as [|x l IH]; cbn; [reflexivity|]. destruct (p x); cbn; [reflexivity|exact IH].
Qed.

Definition junit_spec (rs : list rules_outcome) : cmd_result :=
  if some_err rs then CmdErr
  else Code (if all_parsed rs then (if some_fail rs then 19 else 0) else 5).

Lemma junit_exit_spec : forall n rs,
  well_shaped n rs = true -> validate_exit VJunit true n rs = junit_spec rs.
Proof.
  intros n rs Hw. unfold validate_exit, junit_spec, junit_report. cbn [negb].
  rewrite parse_fold_spec. cbv beta iota. rewrite junit_cells_spec.
  rewrite existsb_data_major by now apply well_shaped_rows.
  rewrite existsb_parsed_rows. fold (some_err rs).
  destruct (some_err rs); [reflexivity|].
  cbn [Nat.add]. rewrite filter_nonempty_existsb.
  rewrite existsb_data_major by now apply well_shaped_rows.
  rewrite existsb_parsed_rows. fold (some_fail rs).
  unfold update_exit_code. codes.
  now destruct (some_fail rs), (all_parsed rs).
Qed.

(* ---- the four sentences of the statement, for every mode ---- *)

Theorem validate_exit_obs : forall m upfront n rs,
  well_shaped n rs = true ->
  c06_validate_obs upfront rs (exit_status (validate_exit m upfront n rs)) = true.
Proof.
  intros m upfront n rs Hw.
  destruct upfront.
  2:{ unfold validate_exit. cbn. unfold c06_validate_obs. cbn. codes. reflexivity. }
  destruct m.
  - (* plain *)
    unfold validate_exit. cbn [negb].
    destruct (some_err rs) eqn:Eerr.
    + rewrite plain_loop_err by assumption. unfold c06_validate_obs. rewrite Eerr. cbn. codes.
      rewrite !andb_false_r. reflexivity.
    + destruct (plain_loop_inv rs success_status_code Eerr) as (c & Hc & Hc3 & H0 & H19 & H5).
      { left. reflexivity. }
      rewrite Hc. unfold c06_validate_obs. rewrite Eerr. cbn [exit_status negb andb orb].
      codes. unfold code3 in Hc3.
      destruct (all_parsed rs) eqn:Ep, (some_fail rs) eqn:Ef; cbn [andb negb];
        destruct Hc3 as [->| [->| ->]]; cbn; try reflexivity; exfalso;
        try (destruct H0 as [H0a H0b]);
        try (assert (0 = 0 /\ true = true /\ false = false) as HH by auto);
        intuition (try discriminate; try lia).
  - rewrite structured_exit_spec by assumption. unfold structured_spec, c06_validate_obs.
    destruct (some_err rs), (some_fail rs), (all_parsed rs); cbn; codes; reflexivity.
  - rewrite junit_exit_spec by assumption. unfold junit_spec, c06_validate_obs.
    destruct (some_err rs), (some_fail rs), (all_parsed rs); cbn; codes; reflexivity.
Qed.

(* the individual sentences, readable *)
Theorem validate_zero_iff : forall m n rs,
  well_shaped n rs = true ->
  (exit_status (validate_exit m true n rs) = 0 <->
   all_parsed rs = true /\ some_fail rs = false /\ some_err rs = false).
Proof.
  intros m n rs Hw. pose proof (validate_exit_obs m true n rs Hw) as H.
  unfold c06_validate_obs in H. cbn [andb negb] in H.
  apply andb_true_iff in H as [H _]. apply andb_true_iff in H as [H _]. apply andb_true_iff in H as [H _].
  apply eqb_prop in H. rewrite <- Z.eqb_eq, H.
  destruct (all_parsed rs), (some_fail rs), (some_err rs); cbn; intuition discriminate.
Qed.

Theorem validate_fail_is_19 : forall m n rs,
  well_shaped n rs = true -> all_parsed rs = true -> some_err rs = false -> some_fail rs = true ->
  exit_status (validate_exit m true n rs) = 19.
Proof.
  intros m n rs Hw Hp He Hf. pose proof (validate_exit_obs m true n rs Hw) as H.
  unfold c06_validate_obs in H. rewrite Hp, He, Hf in H. cbn in H.
  apply andb_true_iff in H as [H _]. apply andb_true_iff in H as [H _]. apply andb_true_iff in H as [_ H].
  now apply Z.eqb_eq.
Qed.

Theorem validate_parse_error_is_5 : forall m n rs,
  well_shaped n rs = true -> all_parsed rs = false -> some_err rs = false -> some_fail rs = false ->
  exit_status (validate_exit m true n rs) = 5.
Proof.
  intros m n rs Hw Hp He Hf. pose proof (validate_exit_obs m true n rs Hw) as H.
  unfold c06_validate_obs in H. rewrite Hp, He, Hf in H. cbn in H.
  apply andb_true_iff in H as [H _]. apply andb_true_iff in H as [_ H].
  now apply Z.eqb_eq.
Qed.

Theorem validate_error_exit : forall m upfront n rs,
  well_shaped n rs = true -> upfront = false \/ some_err rs = true ->
  exit_status (validate_exit m upfront n rs) <> 0 /\ exit_status (validate_exit m upfront n rs) <> 19.
Proof.
  intros m upfront n rs Hw Hc. pose proof (validate_exit_obs m upfront n rs Hw) as H.
  unfold c06_validate_obs in H.
  apply andb_true_iff in H as [_ H].
  assert (E : (negb upfront || some_err rs)%bool = true).
  { destruct Hc as [-> | ->]; cbn; [reflexivity|apply orb_true_r]. }
  rewrite E in H. apply andb_true_iff in H as [H1 H2].
  apply negb_true_iff in H1, H2. apply Z.eqb_neq in H1, H2. auto.
Qed.

(* ---- test ---- *)

Lemma generic_cases_ok : forall cs e,
  forallb (fun c => match c with CaseOk _ => true | _ => false end) cs = true ->
  generic_cases cs e = Code (if existsb case_has_mismatch cs then test_failure_status_code else e).
Proof.
  induction cs as [|c cs IH]; intros e H; cbn; [reflexivity|].
  cbn in H. destruct c; try discriminate. cbn in H. rewrite IH by assumption.
  cbn [case_has_mismatch]. destruct (existsb _ rules); cbn; [|reflexivity].
  now destruct (existsb case_has_mismatch cs).
Qed.

Lemma generic_report_ok : forall fs e,
  forallb spec_ok fs = true ->
  generic_report fs e =
  Code (if existsb (fun f => match f with SpecOk cs => existsb case_has_mismatch cs | _ => false end) fs
        then test_failure_status_code else e).
Proof.
  induction fs as [|f fs IH]; intros e H; cbn; [reflexivity|].
  cbn in H. apply andb_true_iff in H as [H1 H2]. destruct f; [discriminate|].
  cbn in H1. rewrite generic_cases_ok by assumption. rewrite IH by assumption.
  destruct (existsb case_has_mismatch cases); cbn; [|reflexivity].
  now destruct (existsb _ fs).
Qed.

Lemma structured_cases_ok : forall cs acc,
  forallb (fun c => match c with CaseOk _ => true | _ => false end) cs = true ->
  structured_cases cs acc = Some (Some (acc ++ cs)).
Proof.
  induction cs as [|c cs IH]; intros acc H; cbn; [now rewrite app_nil_r|].
  cbn in H. destruct c; try discriminate. rewrite IH by assumption. now rewrite <- app_assoc.
Qed.

Lemma structured_eval_ok : forall fs acc,
  forallb spec_ok fs = true ->
  structured_eval fs acc =
  Some (TROk (acc ++ flat_map (fun f => match f with SpecOk cs => cs | _ => [] end) fs)).
Proof.
  induction fs as [|f fs IH]; intros acc H; cbn; [now rewrite app_nil_r|].
  cbn in H. apply andb_true_iff in H as [H1 H2]. destruct f; [discriminate|].
  cbn in H1. rewrite structured_cases_ok by assumption. rewrite IH by assumption.
  now rewrite <- app_assoc.
Qed.

(* single rules file: plain and structured agree with the statement *)
Theorem test_single_obs : forall t,
  c06_test_obs [t] (exit_status (plain_single t)) = true /\
  (test_all_parse t = true -> c06_test_obs [t] (exit_status (structured_single t)) = true) /\
  (test_all_parse t = false -> exit_status (structured_single t) <> 0).
Proof.
  intros t. destruct t as [| |fs].
  - cbn. codes. repeat split; try reflexivity; intros; discriminate.
  - cbn. codes. repeat split; try reflexivity; intros; discriminate.
  - unfold c06_test_obs. cbn [forallb existsb test_all_parse test_some_mismatch].
    rewrite !andb_true_r, !orb_false_r.
    destruct (forallb spec_ok fs) eqn:Hok.
    + repeat split; intros; try discriminate.
      * cbn [plain_single]. rewrite generic_report_ok by assumption.
        destruct (existsb _ fs); cbn; codes; reflexivity.
      * cbn [structured_single]. rewrite structured_eval_ok by assumption. cbn [app].
        cbn [result_exit_code]. rewrite existsb_flat_map.
        erewrite existsb_ext_eq with (l := fs).
        2:{ intros f. instantiate (1 := fun f => match f with SpecOk cs => existsb case_has_mismatch cs | _ => false end).
            destruct f; reflexivity. }
        destruct (existsb _ fs); cbn; codes; reflexivity.
    + repeat split; intros; try discriminate.
      * (* plain: some file does not parse or a case errs: non-zero *)
        cbn [andb].
        assert (Hnz : exit_status (plain_single (TParsed fs)) <> 0).
        { cbn [plain_single]. clear -Hok.
          assert (G : forall fs e, (e = 0 \/ e = 1 \/ e = 7) -> forallb spec_ok fs = false \/ e <> 0 ->
                      exit_status (generic_report fs e) <> 0).
          { clear. induction fs as [|f fs IH]; intros e He H.
            - cbn. destruct H as [H|H]; [discriminate|]. codes. destruct He as [->|[->| ->]]; cbn; lia.
            - cbn [generic_report]. destruct f as [|cs].
              + apply IH; codes; [auto|right; lia].
              + assert (C : forall cs e, (e = 0 \/ e = 1 \/ e = 7) ->
                          generic_cases cs e = CmdErr \/
                          exists e', generic_cases cs e = Code e' /\ (e' = 0 \/ e' = 1 \/ e' = 7) /\
                                     (e <> 0 -> e' <> 0) /\
                                     (forallb (fun c => match c with CaseOk _ => true | _ => false end) cs = true)).
                { clear. induction cs as [|c cs IHc]; intros e He.
                  - right. exists e. cbn. repeat split; auto.
                  - destruct c; cbn [generic_cases]; auto.
                    destruct (IHc (if case_has_mismatch (CaseOk rules) then test_failure_status_code else e)) as [->|(e' & -> & H1 & H2 & H3)].
                    + codes. destruct (case_has_mismatch _); auto.
                    + auto.
                    + right. exists e'. repeat split; auto.
                      * intros Hne. apply H2. codes. destruct (case_has_mismatch _); [lia|auto]. }
                destruct (C cs e He) as [->|(e' & -> & H1 & H2 & H3)].
                * cbn. codes. cbn. lia.
                * apply IH; [exact H1|].
                  destruct H as [H|H]; [|right; auto].
                  cbn in H. rewrite H3 in H. cbn in H. left. exact H. }
          apply G; [codes; auto|auto]. }
        apply Z.eqb_neq in Hnz. rewrite Hnz. reflexivity.
      * (* structured *)
        cbn [structured_single].
        assert (G : forall fs acc, forallb spec_ok fs = false ->
                    structured_eval fs acc = None \/ structured_eval fs acc = Some TRErr).
        { clear. induction fs as [|f fs IH]; intros acc H; [discriminate|].
          cbn [structured_eval]. destruct f as [|cs]; [auto|].
          cbn in H.
          assert (C : forall cs acc, structured_cases cs acc = None \/ structured_cases cs acc = Some None \/
                      (exists acc', structured_cases cs acc = Some (Some acc') /\
                         forallb (fun c => match c with CaseOk _ => true | _ => false end) cs = true)).
          { clear. induction cs as [|c cs IHc]; intros acc; cbn.
            - right. right. eauto.
            - destruct c; auto.
              all: destruct (IHc (acc ++ [CaseOk rules])) as [->|[->|(a & -> & Hx)]]; auto.
              all: right; right; eauto. }
          destruct (C cs acc) as [->|[->|(a & -> & Hx)]]; auto.
          apply IH. rewrite Hx in H. exact H. }
        destruct (G fs [] Hok) as [->| ->]; cbn; codes; cbn; lia.
Qed.

Theorem get_exit_code_total : forall e t,
  (e = 0 \/ e = 1 \/ e = 7) -> (t = 0 \/ t = 1 \/ t = 7) ->
  exists c, get_exit_code e t = Some c /\ (c = 0 \/ c = 1 \/ c = 7) /\ (c = 0 <-> e = 0 /\ t = 0) /\
            (c = 1 <-> e = 1 \/ t = 1).
Proof.
  intros e t He Ht. unfold get_exit_code. codes.
  destruct He as [->|[->| ->]], Ht as [->|[->| ->]]; cbn; eexists; (split; [reflexivity|]); intuition lia.
Qed.

(* non-vacuity: mixed runs meet the hypotheses, and the mixed parse-error + FAIL case differs by mode *)
Example cli_example :
  well_shaped 2 [RParsed [DPass; DFail]; REmpty; RParsed [DSkip; DPass]] = true /\
  exit_status (validate_exit VPlain true 2 [RParsed [DPass; DFail]; REmpty; RParsed [DSkip; DPass]]) = 19 /\
  exit_status (validate_exit VJunit true 2 [RParsed [DPass; DFail]; RParseErr]) = 5 /\
  exit_status (validate_exit VStructured true 2 [RParsed [DPass; DFail]; RParseErr]) = 19 /\
  exit_status (validate_exit VPlain true 1 [RParsed [DErr]]) = 255.
Proof. vm_compute. repeat split. Qed.

(* ---- C12: the exit status is a function of three facts about the outcome matrix ---- *)
Theorem exit_determined : forall m n rs n' rs',
  well_shaped n rs = true -> well_shaped n' rs' = true ->
  all_parsed rs = all_parsed rs' -> some_fail rs = some_fail rs' -> some_err rs = some_err rs' ->
  (m <> VPlain \/ all_parsed rs = true \/ some_fail rs = false) ->
  exit_status (validate_exit m true n rs) = exit_status (validate_exit m true n' rs').
Proof.
  intros m n rs n' rs' Hw Hw' Hp Hf He Hcase.
  destruct m.
  - destruct Hcase as [Hc|Hc]; [congruence|].
    unfold validate_exit. cbn [negb].
    destruct (some_err rs) eqn:Eerr.
    + rewrite !plain_loop_err by congruence. reflexivity.
    + destruct (plain_loop_inv rs success_status_code Eerr) as (c & Hc1 & Hc3 & H0 & H19 & H5); [left; reflexivity|].
      assert (Eerr' : some_err rs' = false) by congruence.
      destruct (plain_loop_inv rs' success_status_code Eerr') as (c' & Hc1' & Hc3' & H0' & H19' & H5'); [left; reflexivity|].
      rewrite Hc1, Hc1'. cbn [exit_status]. f_equal.
      rewrite <- Hp, <- Hf in *. codes. unfold code3 in *.
      destruct (all_parsed rs), (some_fail rs);
        destruct Hc3 as [->|[->| ->]], Hc3' as [->|[->| ->]]; try reflexivity; exfalso;
        intuition (try discriminate; try lia).
  - rewrite !structured_exit_spec by assumption. unfold structured_spec. now rewrite Hp, Hf, He.
  - rewrite !junit_exit_spec by assumption. unfold junit_spec. now rewrite Hp, Hf, He.
Qed.

Lemma existsb_perm : forall A (f : A -> bool) l l', Permutation l l' -> existsb f l = existsb f l'.
Proof.
  intros A f l l' H. induction H as [|x l l' H IH|x y l|l l' l'' H1 IH1 H2 IH2]; cbn; try congruence.
  - destruct (f x), (f y); reflexivity.
Qed.
Lemma forallb_perm : forall A (f : A -> bool) l l', Permutation l l' -> forallb f l = forallb f l'.
Proof.
  intros A f l l' H. induction H as [|x l l' H IH|x y l|l l' l'' H1 IH1 H2 IH2]; cbn; try congruence.
  - destruct (f x), (f y); reflexivity.
Qed.

(* the order in which the rules files are given does not change the exit status (outside the mixed
   parse-error + FAIL case of the plain loop, which the statement leaves at "non-zero") *)
Theorem rules_order_irrelevant : forall m n rs rs',
  Permutation rs rs' -> well_shaped n rs = true ->
  (m <> VPlain \/ all_parsed rs = true \/ some_fail rs = false) ->
  exit_status (validate_exit m true n rs) = exit_status (validate_exit m true n rs').
Proof.
  intros m n rs rs' Hperm Hw Hc. apply exit_determined; auto.
  - unfold well_shaped in *. now rewrite <- (forallb_perm _ _ _ _ Hperm).
  - unfold all_parsed. now apply forallb_perm.
  - unfold some_fail. now apply existsb_perm.
  - unfold some_err. now apply existsb_perm.
Qed.

(* the order of the data files: every row is permuted by the same permutation *)
Definition permute_rows (f : list data_outcome -> list data_outcome) (rs : list rules_outcome) :=
  map (fun r => match r with RParsed l => RParsed (f l) | x => x end) rs.

Lemma all_parsed_permute : forall f rs, all_parsed (permute_rows f rs) = all_parsed rs.
Proof.
  intros f rs. unfold all_parsed, permute_rows. induction rs as [|r rs IH]; [reflexivity|].
  cbn [map forallb]. rewrite IH. now destruct r.
Qed.
Lemma some_permute : forall (p : data_outcome -> bool) f rs, (forall l, Permutation l (f l)) ->
  existsb (fun r => existsb p (row r)) (permute_rows f rs) = existsb (fun r => existsb p (row r)) rs.
Proof.
  intros p f rs Hf. unfold permute_rows. induction rs as [|r rs IH]; [reflexivity|].
  cbn [map existsb]. rewrite IH. destruct r; try reflexivity.
  cbn [row]. now rewrite <- (existsb_perm _ p _ _ (Hf per_data)).
Qed.

Theorem data_order_irrelevant : forall m n rs f,
  (forall l, Permutation l (f l)) -> well_shaped n rs = true ->
  (m <> VPlain \/ all_parsed rs = true \/ some_fail rs = false) ->
  exit_status (validate_exit m true n rs) = exit_status (validate_exit m true n (permute_rows f rs)).
Proof.
  intros m n rs f Hf Hw Hc. apply exit_determined; auto.
  - unfold well_shaped, permute_rows in *. rewrite forallb_forall in *. intros x Hx.
    apply in_map_iff in Hx as (r & <- & Hr). specialize (Hw r Hr). destruct r; auto.
    rewrite <- (Permutation_length (Hf per_data)). exact Hw.
  - now rewrite all_parsed_permute.
  - unfold some_fail. now rewrite some_permute.
  - unfold some_err. now rewrite some_permute.
Qed.

(* ---- C07: when every rules file parses, the exit status is the same in every output mode ---- *)
Theorem modes_agree : forall m m' n rs,
  well_shaped n rs = true -> all_parsed rs = true ->
  exit_status (validate_exit m true n rs) = exit_status (validate_exit m' true n rs).
Proof.
  intros m m' n rs Hw Hp.
  assert (G : forall m0, exit_status (validate_exit m0 true n rs) =
                         if some_err rs then 255 else if some_fail rs then 19 else 0).
  { intros m0. destruct (some_err rs) eqn:Ee.
    - destruct m0.
      + unfold validate_exit. cbn [negb]. now rewrite plain_loop_err.
      + rewrite structured_exit_spec by assumption. unfold structured_spec. now rewrite Ee.
      + rewrite junit_exit_spec by assumption. unfold junit_spec. now rewrite Ee.
    - destruct (some_fail rs) eqn:Ef.
      + now apply validate_fail_is_19.
      + apply validate_zero_iff; auto. }
  now rewrite (G m), (G m').
Qed.
