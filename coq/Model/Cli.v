(* Cli.v — exit-code folds of the `validate` and `test` commands.
   validate.rs 352-500 (loops), 552-596 (evaluate_rule), 690-758 (evaluate_against_data_input);
   reporters/validate/structured.rs 29-141; reporters/validate/xml.rs 15-81 + reporters/mod.rs update_exit_code;
   main.rs 34-44 (Err -> exit(-1)); test.rs handle_* and get_exit_code; reporters/test/generic.rs 28-70;
   reporters/test/structured.rs TestResult::get_exit_code.
   The status-code constants are regenerated from the source (Generated/Codes.v). No proofs here. *)
From Coq Require Export List ZArith Bool.
From GV.Generated Require Export Codes.
Export ListNotations.
Open Scope Z_scope.

(* ---------------------------------------------------------------- validate *)

Inductive data_outcome := DPass | DFail | DSkip | DErr.
Inductive rules_outcome :=
| RParseErr                                  (* parse_rules -> Err *)
| REmpty                                     (* parse_rules -> Ok(None) *)
| RParsed (per_data : list data_outcome).    (* one entry per data file, in data-file order *)

(* what `execute` returns to main *)
Inductive cmd_result := Code (c : Z) | CmdErr.

Definition exit_status (r : cmd_result) : Z :=
  match r with
  | Code c => process_status c
  | CmdErr => process_status main_err_exit_arg
  end.

Inductive vmode := VPlain | VStructured | VJunit.

Definition is_fail (d : data_outcome) : bool := match d with DFail => true | _ => false end.
Definition is_err (d : data_outcome) : bool := match d with DErr => true | _ => false end.
Definition is_parse_err (r : rules_outcome) : bool := match r with RParseErr => true | _ => false end.
Definition row (r : rules_outcome) : list data_outcome := match r with RParsed l => l | _ => [] end.

(* evaluate_against_data_input: Err at the first erroring data file, else FAIL iff some data file FAILs *)
Fixpoint against_data (l : list data_outcome) (overall_fail : bool) : option bool :=
  match l with
  | [] => Some overall_fail
  | DErr :: _ => None
  | DFail :: r => against_data r true
  | _ :: r => against_data r overall_fail
  end.

(* evaluate_rule: Ok(code) or Err *)
Definition evaluate_rule (r : rules_outcome) : option Z :=
  match r with
  | RParseErr => Some error_status_code
  | REmpty => Some success_status_code
  | RParsed l =>
      match against_data l false with
      | None => None
      | Some true => Some failure_status_code
      | Some false => Some success_status_code
      end
  end.

(* the plain loop: `if status != SUCCESS_STATUS_CODE { exit_code = status }`, `?` on Err *)
Fixpoint plain_loop (rs : list rules_outcome) (exit_code : Z) : cmd_result :=
  match rs with
  | [] => Code exit_code
  | r :: rest =>
      match evaluate_rule r with
      | None => CmdErr
      | Some st => plain_loop rest (if Z.eqb st success_status_code then exit_code else st)
      end
  end.

(* StructuredEvaluator::evaluate: the parse fold *)
Fixpoint parse_fold (rs : list rules_outcome) (exit_code : Z) : Z * list (list data_outcome) :=
  match rs with
  | [] => (exit_code, [])
  | RParseErr :: rest => parse_fold rest error_status_code
  | REmpty :: rest => parse_fold rest exit_code
  | RParsed l :: rest => let '(e, rows) := parse_fold rest exit_code in (e, l :: rows)
  end.

(* column k of the parsed rows: the outcomes of data file k against every parsed rules file *)
Definition column (rows : list (list data_outcome)) (k : nat) : list data_outcome :=
  flat_map (fun l => match nth_error l k with Some d => [d] | None => [] end) rows.

(* CommonStructuredReporter::report: data-major loop, `?` on Err, FAIL sets FAILURE_STATUS_CODE *)
Fixpoint common_cells (cells : list data_outcome) (exit_code : Z) : cmd_result :=
  match cells with
  | [] => Code exit_code
  | DErr :: _ => CmdErr
  | DFail :: r => common_cells r failure_status_code
  | _ :: r => common_cells r exit_code
  end.

Definition data_major (rows : list (list data_outcome)) (ndata : nat) : list data_outcome :=
  flat_map (column rows) (seq 0 ndata).

(* JunitReporter::report + update_exit_code *)
Definition update_exit_code (exit_code code : Z) : Z :=
  if Z.eqb code error_status_code
     || (Z.eqb code failure_status_code && negb (Z.eqb exit_code error_status_code))
  then code else exit_code.

Fixpoint junit_cells (cells : list data_outcome) (failures : nat) : option nat :=
  match cells with
  | [] => Some failures
  | DErr :: _ => None
  | DFail :: r => junit_cells r (S failures)
  | _ :: r => junit_cells r failures
  end.

Definition junit_report (cells : list data_outcome) (exit_code : Z) : cmd_result :=
  match junit_cells cells 0 with
  | None => CmdErr
  | Some failures =>
      (* total_errors stays 0: TestCaseStatus::Error needs simplified_json_from_root to fail *)
      Code (if Nat.ltb 0 failures then update_exit_code exit_code failure_status_code else exit_code)
  end.

(* upfront = false: a missing path / unreadable or malformed data / parameter file made `execute`
   return Err before any rules file was looked at *)
Definition validate_exit (m : vmode) (upfront_ok : bool) (ndata : nat) (rs : list rules_outcome)
  : cmd_result :=
  if negb upfront_ok then CmdErr
  else match m with
       | VPlain => plain_loop rs success_status_code
       | VStructured =>
           let '(e, rows) := parse_fold rs success_status_code in
           common_cells (data_major rows ndata) e
       | VJunit =>
           let '(e, rows) := parse_fold rs success_status_code in
           junit_report (data_major rows ndata) e
       end.

(* the outcome facts the property speaks about *)
Definition all_parsed (rs : list rules_outcome) : bool := forallb (fun r => negb (is_parse_err r)) rs.
Definition some_fail (rs : list rules_outcome) : bool := existsb (fun r => existsb is_fail (row r)) rs.
Definition some_err (rs : list rules_outcome) : bool := existsb (fun r => existsb is_err (row r)) rs.
Definition well_shaped (ndata : nat) (rs : list rules_outcome) : bool :=
  forallb (fun r => match r with RParsed l => Nat.eqb (List.length l) ndata | _ => true end) rs.

(* the monitor: the four sentences of the statement about `validate`, on an observed exit status *)
Definition c06_validate_obs (upfront_ok : bool) (rs : list rules_outcome) (status : Z) : bool :=
  let ok0 := upfront_ok && all_parsed rs && negb (some_fail rs) && negb (some_err rs) in
  Bool.eqb (Z.eqb status 0) ok0
  && (if upfront_ok && all_parsed rs && negb (some_err rs) && some_fail rs then Z.eqb status 19 else true)
  && (if upfront_ok && negb (all_parsed rs) && negb (some_fail rs) && negb (some_err rs) then Z.eqb status 5 else true)
  && (if negb upfront_ok || some_err rs then negb (Z.eqb status 0) && negb (Z.eqb status 19) else true).

(* ---------------------------------------------------------------- test *)

Inductive expectation_result := EMatched | EMismatch | ENoExpectation.
Inductive case_outcome := CaseOk (rules : list expectation_result) | CaseEvalErr | CaseBadExpectation.
Inductive spec_file := SpecBad | SpecOk (cases : list case_outcome).
Inductive test_rules := TParseErr | TEmpty | TParsed (specs : list spec_file).

Definition case_has_mismatch (c : case_outcome) : bool :=
  match c with CaseOk l => existsb (fun e => match e with EMismatch => true | _ => false end) l | _ => false end.

(* GenericReporter::report; Status::try_from(exp)? and eval `?` are errors of the command *)
Fixpoint generic_cases (cs : list case_outcome) (exit_code : Z) : cmd_result :=
  match cs with
  | [] => Code exit_code
  | CaseOk l :: r => generic_cases r (if case_has_mismatch (CaseOk l) then test_failure_status_code else exit_code)
  | _ :: _ => CmdErr
  end.
Fixpoint generic_report (fs : list spec_file) (exit_code : Z) : cmd_result :=
  match fs with
  | [] => Code exit_code
  | SpecBad :: r => generic_report r test_error_status_code
  | SpecOk cs :: r =>
      match generic_cases cs exit_code with
      | Code e => generic_report r e
      | CmdErr => CmdErr
      end
  end.

Definition plain_single (t : test_rules) : cmd_result :=
  match t with
  | TParseErr => Code test_error_status_code
  | TEmpty => Code success_status_code
  | TParsed fs => generic_report fs success_status_code
  end.

(* StructuredTestReporter::evaluate -> TestResult, then TestResult::get_exit_code *)
Inductive test_result := TRErr | TROk (cases : list case_outcome).
Fixpoint structured_cases (cs : list case_outcome) (acc : list case_outcome) : option (option (list case_outcome)) :=
  (* None = command error; Some None = TestResult::Err; Some (Some l) = cases so far *)
  match cs with
  | [] => Some (Some acc)
  | CaseOk l :: r => structured_cases r (acc ++ [CaseOk l])
  | CaseBadExpectation :: _ => Some None
  | CaseEvalErr :: _ => None
  end.
Fixpoint structured_eval (fs : list spec_file) (acc : list case_outcome) : option test_result :=
  match fs with
  | [] => Some (TROk acc)
  | SpecBad :: _ => Some TRErr
  | SpecOk cs :: r =>
      (* get_test_data converts all inputs first; then the cases run *)
      match structured_cases cs acc with
      | None => None
      | Some None => Some TRErr
      | Some (Some acc') => structured_eval r acc'
      end
  end.
Definition result_exit_code (t : test_result) : Z :=
  match t with
  | TRErr => test_error_status_code
  | TROk cs => if existsb case_has_mismatch cs then test_failure_status_code else success_status_code
  end.

(* test.rs get_exit_code; None = unreachable!() *)
Definition get_exit_code (exit_code test_code : Z) : option Z :=
  if Z.eqb exit_code success_status_code then Some test_code
  else if Z.eqb exit_code test_error_status_code then Some exit_code
  else if Z.eqb exit_code test_failure_status_code then
    Some (if Z.eqb test_code test_error_status_code then test_error_status_code else test_failure_status_code)
  else None.

(* handle_structured_single_report *)
Definition structured_single (t : test_rules) : cmd_result :=
  match t with
  | TParseErr => Code test_error_status_code
  | TEmpty => Code success_status_code
  | TParsed fs =>
      match structured_eval fs [] with
      | None => CmdErr
      | Some res =>
          match get_exit_code success_status_code (result_exit_code res) with
          | Some e => Code e
          | None => CmdErr
          end
      end
  end.

(* handle_structured_directory_report *)
Fixpoint structured_dir (ts : list test_rules) (exit_code : Z) : cmd_result :=
  match ts with
  | [] => Code exit_code
  | TParseErr :: r => structured_dir r test_error_status_code
  | TEmpty :: r => structured_dir r exit_code
  | TParsed fs :: r =>
      match structured_eval fs [] with
      | None => CmdErr
      | Some res =>
          match get_exit_code exit_code (result_exit_code res) with
          | Some e => structured_dir r e
          | None => CmdErr
          end
      end
  end.

(* handle_plaintext_directory *)
Fixpoint plain_dir (ts : list test_rules) (exit_code : Z) : cmd_result :=
  match ts with
  | [] => Code exit_code
  | TParseErr :: r => plain_dir r test_failure_status_code
  | TEmpty :: r => plain_dir r exit_code
  | TParsed fs :: r =>
      match generic_report fs success_status_code with
      | CmdErr => CmdErr
      | Code e => plain_dir r (if Z.eqb exit_code success_status_code then e else exit_code)
      end
  end.

Definition spec_ok (f : spec_file) : bool :=
  match f with
  | SpecBad => false
  | SpecOk cs => forallb (fun c => match c with CaseOk _ => true | _ => false end) cs
  end.
Definition test_all_parse (t : test_rules) : bool :=
  match t with TParseErr => false | TEmpty => true | TParsed fs => forallb spec_ok fs end.
Definition test_some_mismatch (t : test_rules) : bool :=
  match t with
  | TParsed fs => existsb (fun f => match f with SpecOk cs => existsb case_has_mismatch cs | _ => false end) fs
  | _ => false
  end.

Definition c06_test_obs (ts : list test_rules) (status : Z) : bool :=
  let parse := forallb test_all_parse ts in
  let mism := existsb test_some_mismatch ts in
  Bool.eqb (Z.eqb status 0) (parse && negb mism)
  && (if parse && mism then Z.eqb status 7 else true).
