(* C14 — alternative spellings, layout and comments do not change a rule file's meaning (partial). Pinned statements only.
   Proved: the lexical layer (keyword synonym classes over tables regenerated from parser.rs, white space and comments,
   quoted strings) and the VALUE-LITERAL grammar (Model/ValueParse.v = parser.rs parse_value: null, strings, integers,
   booleans, regular expressions, ranges, lists, maps): every spelling of a value - any layout and comments at every
   position the grammar allows, either quote character, either keyword case, signs and leading zeros - parses to that
   value. NOT modelled: the rest of the nom grammar (queries, clauses, blocks, rules) - that a synonym is accepted identically in EVERY context is
   checked by correspondence (pretty-printing generated ASTs under all spellings/layouts and comparing the parser's
   ASTs and the verdicts; tools/gv/props/c14.py). *)
From GV.Model Require Import Lex ValueParse.
From GV.Proofs Require Import LexProps ValueParseProps ValueSpellProps ValueSpellExample.

Theorem C14_keyword_tables_are_the_documented_ones :
  set_eqb kw_in_keyword ["in"; "IN"] = true /\ set_eqb kw_keys ["keys"; "KEYS"] = true /\
  set_eqb kw_exists ["exists"; "EXISTS"] = true /\ set_eqb kw_empty ["empty"; "EMPTY"] = true /\
  set_eqb kw_is_list ["is_list"; "IS_LIST"] = true /\ set_eqb kw_is_struct ["is_struct"; "IS_STRUCT"] = true /\
  set_eqb kw_is_string ["is_string"; "IS_STRING"] = true /\ set_eqb kw_is_bool ["is_bool"; "IS_BOOL"] = true /\
  set_eqb kw_is_int ["is_int"; "IS_INT"] = true /\ set_eqb kw_is_float ["is_float"; "IS_FLOAT"] = true /\
  set_eqb kw_is_null ["is_null"; "IS_NULL"] = true /\ set_eqb kw_some_keyword ["some"; "SOME"] = true /\
  set_eqb kw_this_keyword ["this"; "THIS"] = true /\ set_eqb kw_when ["when"; "WHEN"] = true /\
  set_eqb kw_or_term ["or"; "OR"; "|OR|"] = true /\ set_eqb kw_parse_null ["null"; "NULL"] = true /\
  set_eqb kw_not_words ["not"; "NOT"] = true /\ set_eqb kw_not_chars ["!"] = true /\
  set_eqb kw_assign ["="; ":="] = true /\ set_eqb kw_let_keyword ["let"] = true /\
  set_eqb kw_bool_true ["true"; "True"] = true /\ set_eqb kw_bool_false ["false"; "False"] = true.
Proof. exact keyword_tables_are_the_documented_ones. Qed.
Print Assumptions C14_keyword_tables_are_the_documented_ones.

Theorem C14_synonyms_same_token : forall T (x : T) tags s r1,
  alt_tags tags s = Some r1 -> keyword x tags s = Some (x, r1).
Proof. exact synonyms_same_token. Qed.
Print Assumptions C14_synonyms_same_token.

Theorem C14_tag_accepted : forall tags t rest,
  In t tags -> (forall u, In u tags -> u <> t -> str_prefix u (t +++ rest) = false) ->
  alt_tags tags (t +++ rest) = Some rest.
Proof. exact tag_accepted. Qed.
Print Assumptions C14_tag_accepted.

(* indentation, blank lines, trailing spaces, line breaks and # comments: consumed down to the same remainder *)
Theorem C14_ws_comment_absorbing : forall w rest, layout w -> solid rest -> skip_ws_comments (w +++ rest) = rest.
Proof. exact ws_comment_absorbing. Qed.
Print Assumptions C14_ws_comment_absorbing.

Theorem C14_layouts_are_interchangeable : forall w1 w2 rest,
  layout w1 -> layout w2 -> solid rest -> skip_ws_comments (w1 +++ rest) = skip_ws_comments (w2 +++ rest).
Proof. exact layouts_are_interchangeable. Qed.
Print Assumptions C14_layouts_are_interchangeable.

(* single vs double quoted strings *)
Theorem C14_string_quote_roundtrip : forall q s rest,
  q <> "\"%char -> ends_with_backslash s = false ->
  parse_quoted q (quote q s +++ rest) = Some (s, rest).
Proof. exact string_quote_roundtrip. Qed.
Print Assumptions C14_string_quote_roundtrip.

Theorem C14_single_and_double_quotes_agree : forall s rest,
  ends_with_backslash s = false ->
  parse_quoted "'" (quote "'" s +++ rest) = parse_quoted """" (quote """" s +++ rest).
Proof. exact single_and_double_quotes_agree. Qed.
Print Assumptions C14_single_and_double_quotes_agree.

(* ---- the value-literal grammar (parse_value) ---- *)

(* blanks, line breaks and comments in front of a value do not matter, whatever the value and whatever follows *)
Theorem C14_layout_before_a_value_is_irrelevant : forall rv n w s,
  layout w -> parse_value rv n (w +++ s) = parse_value rv n s.
Proof. exact parse_value_layout. Qed.
Print Assumptions C14_layout_before_a_value_is_irrelevant.

(* every well-formed spelling (concrete syntax tree with a layout at every position, quote style, keyword case, sign and
   leading zeros) of a value is read as that value and leaves what follows untouched *)
Theorem C14_every_spelling_of_a_value_parses_to_it : forall rv t rest,
  wf rv t -> follow t rest -> parse_value_top rv (render t +++ rest) = POk (denote t) rest.
Proof. exact spelling_parses. Qed.
Print Assumptions C14_every_spelling_of_a_value_parses_to_it.

Theorem C14_spellings_of_one_value_agree : forall rv t1 t2 rest,
  wf rv t1 -> wf rv t2 -> follow t1 rest -> follow t2 rest -> denote t1 = denote t2 ->
  parse_value_top rv (render t1 +++ rest) = parse_value_top rv (render t2 +++ rest).
Proof. exact spellings_agree. Qed.
Print Assumptions C14_spellings_of_one_value_agree.

(* the parser's fuel bounds nesting and list length only: the standard fuel always suffices and more fuel changes nothing *)
Theorem C14_value_parser_answers : forall rv s, parse_value_top rv s <> POof.
Proof. exact parse_value_top_answers. Qed.
Print Assumptions C14_value_parser_answers.

Theorem C14_value_parser_fuel_irrelevant : forall rv s n,
  (value_fuel s <= n)%nat -> parse_value rv n s = parse_value_top rv s.
Proof. exact parse_value_fuel_irrelevant. Qed.
Print Assumptions C14_value_parser_fuel_irrelevant.

(* a parsed value consumed at least one character: what is left is strictly shorter *)
Theorem C14_value_parser_consumes : forall rv n s v r,
  parse_value rv n s = POk v r -> (String.length r < String.length s)%nat.
Proof. exact parse_value_consumes. Qed.
Print Assumptions C14_value_parser_consumes.

(* the premises are met: a map with comments, both quote styles, signs, leading zeros, ranges, a regex, nested lists *)
Theorem C14_spelling_instance :
  wf (fun _ => true) ex_cst /\
  parse_value_top (fun _ => true) (render ex_cst) = POk (denote ex_cst) EmptyString /\
  denote ex_cst = VMap [("ports", VList [VInt 80; VInt (-1); VRangeInt 1 5 1]);
                        ("a ""b", VList [VStr "it's"; VNull; VBool true; VRegex "^a.*$"; VRangeChar "a" "z" 2; VMap []])].
Proof. exact (conj ex_cst_wf ex_cst_parses). Qed.
Print Assumptions C14_spelling_instance.
