(* ClauseSpellProps.v — every concrete spelling of an access clause parses to that clause: any layout in front, `not` / `NOT` with
   any run of blanks or `!`, any spelling of the query (QuerySpellProps), any layout before the operator, either case of a
   keyword operator with its own negation spelling or a symbol, any layout before the right-hand side, any spelling of a value
   literal (ValueSpellProps) or a %variable query, any layout before an optional custom message. *)
From Coq Require Import Lia.
From GV.Model Require Import Ast.
From GV.Model Require Import ValueParse QueryParse OpParse ClauseParse.
From GV.Proofs Require Import LexProps ValueParseProps ValueSpellProps QueryParseProps QuerySpellProps OpParseProps ClauseParseProps.
Local Open Scope string_scope.
Local Open Scope nat_scope.

Ltac norm := repeat first [ rewrite sapp_assoc in * | progress cbn [append] in * ].

(* ---------------------------------------------------------------- concrete syntax *)
Inductive cneg := NNone | NWord (upper : bool) (b : string) | NBang.
Inductive cop := OpSym (sym : string) | OpKw (ng : cneg) (t : string).
Inductive crhs := RhsNone | RhsValue (w : string) (t : cst) | RhsQuery (w : string) (q : cquery).
Record cclause := mkCC { cl_w0 : string; cl_neg : cneg; cl_query : cquery; cl_w1 : string; cl_op : cop; cl_rhs : crhs;
                         cl_msg : option (string * string) }.

Definition render_neg (ng : cneg) : string :=
  match ng with NNone => EmptyString | NWord u b => (if u then "NOT" else "not") +++ b | NBang => "!" end.
Definition neg_flag (ng : cneg) : bool := match ng with NNone => false | _ => true end.
Definition render_op (o : cop) : string := match o with OpSym s => s | OpKw ng t => render_neg ng +++ t end.
Definition render_rhs (rv : string -> bool) (r : crhs) : string :=
  match r with RhsNone => EmptyString | RhsValue w t => w +++ render t | RhsQuery w q => w +++ qrender q end.
Definition render_msg (m : option (string * string)) : string :=
  match m with Some (w, t) => w +++ ("<<" +++ (t +++ ">>")) | None => EmptyString end.
Definition crender (rv : string -> bool) (c : cclause) : string :=
  cl_w0 c +++ (render_neg (cl_neg c) +++ (qrender (cl_query c) +++ (cl_w1 c +++ (render_op (cl_op c) +++ (render_rhs rv (cl_rhs c) +++ render_msg (cl_msg c)))))).

Definition sym_table : list (string * (cmp_op * bool)) :=
  [("==", (OEq, false)); ("!=", (OEq, true)); (">=", (OGe, false)); ("<=", (OLe, false)); (">", (OGt, false)); ("<", (OLt, false))].

(* the operator a spelling stands for, as a relation (the keyword tables are lists of spellings) *)
Inductive op_denotes : cop -> cmp_op * bool -> Prop :=
| od_sym : forall s c, In (s, c) sym_table -> op_denotes (OpSym s) c
| od_kw : forall ng t o, is_keyword_spelling o t -> op_denotes (OpKw ng t) (o, neg_flag ng).

Definition denote_rhs (r : crhs) : option rhs :=
  match r with RhsNone => None | RhsValue _ t => Some (RLit (denote t)) | RhsQuery _ q => Some (RQuery (qdenote q)) end.
Definition denote_msg (m : option (string * string)) : option string := match m with Some (_, t) => Some t | None => None end.
Definition cdenote (c : cclause) (o : cmp_op * bool) : pclause :=
  mkPC (neg_flag (cl_neg c)) (qdenote (cl_query c)) o (denote_rhs (cl_rhs c)) (denote_msg (cl_msg c)).

(* ---------------------------------------------------------------- well-formedness *)
Definition wf_neg (ng : cneg) : Prop := match ng with NWord _ b => blanks b /\ b <> EmptyString | _ => True end.

Fixpoint has_close (s : string) : bool :=
  match s with EmptyString => false | String c r => str_prefix ">>" s || has_close r end.
(* the message text does not contain the closing tag and does not end with its first character *)
Definition wf_msg (m : option (string * string)) : Prop :=
  match m with Some (w, t) => layout w /\ has_close (t +++ ">") = false | None => True end.

Definition starts_solid (s : string) : Prop :=
  match s with String c _ => is_ws c = false /\ is_hash c = false | EmptyString => False end.
(* the first character of s is not one of the given ones *)
Definition first_not (bad : ascii -> bool) (s : string) : Prop :=
  match s with String c _ => bad c = false | EmptyString => True end.

(* a bare head key that reads as a negation word is excluded *)
Definition no_not_prefix (c : cquery) : Prop :=
  match c_some c, c_head c with
  | None, CKey KBare k => str_prefix "not" k = false /\ str_prefix "NOT" k = false
  | _, _ => True
  end.

Definition rhs_matches_op (o : cmp_op * bool) (r : crhs) : Prop :=
  match r with RhsNone => is_unary (fst o) = true | _ => is_unary (fst o) = false end.

(* a right-hand side query starts with a %variable (anything else may read as a literal or a function call) *)
Definition wf_rhs (rv : string -> bool) (r : crhs) : Prop :=
  match r with
  | RhsNone => True
  | RhsValue w t => layout w /\ wf rv t
  | RhsQuery w q => layout w /\ qwf q /\ c_some q = None /\ exists v, c_head q = CVar v
  end.

(* ---------------------------------------------------------------- negations *)
Lemma not_kw_spelled ng X : wf_neg ng -> neg_flag ng = true -> first_not is_blank X -> not_kw (render_neg ng +++ X) = Some X.
Proof.
  destruct ng as [|u b|]; cbn [wf_neg neg_flag render_neg]; intros Hw Hf HX; try discriminate.
  - destruct Hw as [Hb Hne]. assert (Hs : match X with String c _ => is_blank c = false | EmptyString => True end) by (destruct X; exact HX).
    unfold not_kw, kw_not_words. cbn [not_words]. unfold not_word.
    destruct u; norm; cbn [str_prefix Ascii.eqb Bool.eqb andb String.length drop]; rewrite (span_while_all is_blank b X Hb Hs);
      destruct b; try contradiction; reflexivity.
  - reflexivity.
Qed.

Lemma alpha_not_bang a : is_alpha a = true -> Ascii.eqb "!" a = false /\ Ascii.eqb "n" a = Ascii.eqb "n" a.
Proof. destruct a as [[] [] [] [] [] [] [] []]; cbv; intros H; try discriminate; split; reflexivity. Qed.

Lemma not_kw_of_name k X : wf_name k -> str_prefix "not" k = false -> str_prefix "NOT" k = false -> name_end X -> not_kw (k +++ X) = None.
Proof.
  intros Hk H1 H2 HX. unfold not_kw, kw_not_words, kw_not_chars. cbn [not_words]. unfold not_word.
  rewrite (str_prefix_name "not" k X eq_refl H1 HX), (str_prefix_name "NOT" k X eq_refl H2 HX).
  destruct Hk as (a & r & -> & Ha & _). cbn [append alt_tags str_prefix]. destruct (alpha_not_bang a Ha) as [-> _]. reflexivity.
Qed.

(* a query spelling that starts solid is never read as a negation *)
Lemma query_not_negation c Y : qwf c -> starts_solid (qrender c) -> no_not_prefix c -> name_end (render_parts (c_parts c) +++ Y) ->
  not_kw (qrender c +++ Y) = None.
Proof.
  destruct c as [sm h ps]. unfold qwf, qrender, no_not_prefix. cbn [c_some c_head c_parts]. intros (Hs & Hh & Hps) Hst Hn HX.
  destruct sm as [[[w0 upper] w1]|]; cbn [render_some wf_some] in *.
  - destruct Hs as (Hw0 & _). destruct Hw0 as [|a w Ha Hw|body w Hb Hw]; cbn [append] in Hst.
    + destruct upper; reflexivity.
    + destruct Hst as [E _]. congruence.
    + destruct Hst as [_ E]. discriminate.
  - cbn [append] in *. destruct h as [w upper|v|[|dq] k]; cbn [render_head wf_head render_key_how] in *.
    + destruct Hh as [|a w' Ha Hw|body w' Hb Hw]; cbn [append] in Hst.
      * destruct upper; reflexivity.
      * destruct Hst as [E _]. congruence.
      * destruct Hst as [_ E]. discriminate.
    + reflexivity.
    + destruct Hh as [Hk _]. destruct Hn as [N1 N2]. rewrite sapp_assoc. apply not_kw_of_name; assumption.
    + destruct (quote_first dq k (render_parts ps +++ Y)) as (r & Er). rewrite sapp_assoc, Er. destruct dq; reflexivity.
Qed.

(* ---------------------------------------------------------------- operators *)
Definition sym_follow (s : string) (Y : string) : Prop :=
  String.length s = 1 -> first_not (fun c => Ascii.eqb c "=" || Ascii.eqb c "<") Y.

Lemma sym_spelled s c Y : In (s, c) sym_table -> sym_follow s Y -> value_cmp (s +++ Y) = POk c Y.
Proof.
  unfold sym_table. intros H HY.
  repeat (destruct H as [H|H]; [inversion H; subst; clear H|]); try destruct H; try reflexivity.
  - specialize (HY eq_refl). destruct Y as [|a r]; [reflexivity|]. cbn in HY. destruct a as [[] [] [] [] [] [] [] []]; try discriminate HY; reflexivity.
  - specialize (HY eq_refl). destruct Y as [|a r]; [reflexivity|]. cbn in HY. destruct a as [[] [] [] [] [] [] [] []]; try discriminate HY; reflexivity.
Qed.

Definition op_follow (o : cop) (Y : string) : Prop := match o with OpSym s => sym_follow s Y | OpKw _ _ => True end.
Definition wf_op (o : cop) : Prop := match o with OpSym _ => True | OpKw ng _ => wf_neg ng end.

Lemma op_spelled o c Y : op_denotes o c -> wf_op o -> op_follow o Y -> value_cmp (render_op o +++ Y) = POk c Y.
Proof.
  intros Hd Hw HY. destruct Hd as [s c Hin|ng t o Ht]; cbn [render_op wf_op op_follow] in *.
  - now apply sym_spelled.
  - destruct ng as [|u b|]; cbn [render_neg neg_flag] in *.
    + cbn [append]. now apply plain_keyword_operator.
    + destruct Hw as [Hb Hne]. norm.
      assert (Hin : In (if u then "NOT" else "not") kw_not_words) by (unfold kw_not_words; destruct u; cbn; auto).
      destruct (negated_keyword_operator o t Ht (if u then "NOT" else "not") b Y Hin Hb Hne) as [E _].
      destruct u; norm; exact E.
    + destruct (negated_keyword_operator o t Ht "not" " " Y (or_introl eq_refl) eq_refl ltac:(discriminate)) as [_ E]. norm. exact E.
Qed.

(* the first character of an operator spelling *)
Definition op_char (c : ascii) : bool :=
  Ascii.eqb c "=" || Ascii.eqb c "!" || Ascii.eqb c ">" || Ascii.eqb c "<" || is_alpha c.
Lemma op_char_facts c : op_char c = true -> is_ws c = false /\ is_hash c = false /\ c <> "."%char /\ c <> "["%char /\ is_ascii c = true.
Proof. destruct c as [[] [] [] [] [] [] [] []]; cbv; intros H; try discriminate; repeat split; discriminate. Qed.
Lemma op_symbol_facts c : (Ascii.eqb c "=" || Ascii.eqb c "!" || Ascii.eqb c ">" || Ascii.eqb c "<") = true -> name_char c = false.
Proof. destruct c as [[] [] [] [] [] [] [] []]; cbv; intros H; try discriminate; reflexivity. Qed.

Lemma render_op_first o c Y : op_denotes o c -> exists a r, render_op o +++ Y = String a r /\ op_char a = true /\
  (match o with OpSym _ | OpKw NBang _ => name_char a = false | _ => True end).
Proof.
  intros Hd. destruct Hd as [s c Hin|ng t o Ht]; cbn [render_op].
  - unfold sym_table in Hin. repeat (destruct Hin as [Hin|Hin]; [inversion Hin; subst; clear Hin; eexists; eexists; cbn; repeat split|]). destruct Hin.
  - destruct ng as [|u b|]; cbn [render_neg].
    + destruct (keyword_first o t Ht) as (a & r & -> & _). cbn [append]. exists a, (r +++ Y). split; [reflexivity|]. split; [|trivial].
      destruct Ht as (kw & Hk & Hin). unfold op_tables in Hk.
      repeat (destruct Hk as [Hk|Hk]; [inversion Hk; subst; clear Hk; repeat (destruct Hin as [Hin|Hin]; [inversion Hin; reflexivity|]); destruct Hin|]). destruct Hk.
    + destruct u; norm; eexists; eexists; repeat split.
    + norm. eexists; eexists; repeat split.
Qed.

(* ---------------------------------------------------------------- messages *)
Lemma close_step c m X : has_close (String c m +++ ">") = false -> str_prefix ">>" (String c (m +++ String ">" (String ">" X))) = false.
Proof.
  cbn [append has_close]. intros H. apply orb_false_elim in H as [H _]. cbn [str_prefix] in *.
  destruct (Ascii.eqb ">" c); [|reflexivity]. cbn [andb] in *. destruct m as [|d m']; cbn [append str_prefix] in *; exact H.
Qed.

Lemma find_close_spelled : forall m acc X, has_close (m +++ ">") = false -> find_close (m +++ String ">" (String ">" X)) acc = Some (acc +++ m, X).
Proof.
  induction m as [|c m IH]; intros acc X H.
  - cbn. now rewrite sapp_nil_r.
  - cbn [append find_close]. rewrite (close_step c m X H). cbn [append has_close] in H. apply orb_false_elim in H as [_ H].
    rewrite (IH _ X H). now rewrite sapp_assoc.
Qed.

Lemma opt_message_spelled m rest : wf_msg m ->
  (m = None -> first_not (fun c => Ascii.eqb c "<") (skip_ws_comments rest) \/ str_prefix "<<" (skip_ws_comments rest) = false) ->
  opt_message (render_msg m +++ rest) = POk (denote_msg m) (match m with Some _ => rest | None => skip_ws_comments rest end).
Proof.
  destruct m as [[w t]|]; cbn [wf_msg render_msg denote_msg]; intros Hw Hn.
  - destruct Hw as [Hw Hc]. norm. unfold opt_message. rewrite (skip_layout w _ Hw). rewrite skip_solid by reflexivity.
    unfold custom_message. cbn [str_prefix Ascii.eqb Bool.eqb andb drop]. rewrite (find_close_spelled t EmptyString rest Hc). reflexivity.
  - cbn [append]. unfold opt_message, custom_message. destruct (Hn eq_refl) as [H|H].
    + destruct (skip_ws_comments rest) as [|c r]; [reflexivity|]. cbn in H. cbn [str_prefix]. destruct (Ascii.eqb_spec "<" c); [subst; discriminate|reflexivity].
    + rewrite H. reflexivity.
Qed.

(* ---------------------------------------------------------------- the theorem *)
Section Spelling.
Variable rv : string -> bool.

Definition cwf (c : cclause) (o : cmp_op * bool) : Prop :=
  layout (cl_w0 c) /\ wf_neg (cl_neg c) /\ qwf (cl_query c) /\ starts_solid (qrender (cl_query c)) /\ no_not_prefix (cl_query c) /\
  layout (cl_w1 c) /\ op_denotes (cl_op c) o /\ wf_op (cl_op c) /\ rhs_matches_op o (cl_rhs c) /\ wf_rhs rv (cl_rhs c) /\ wf_msg (cl_msg c) /\
  (* a keyword operator is separated from the query *)
  (cl_w1 c = EmptyString -> match cl_op c with OpSym _ | OpKw NBang _ => True | _ => False end).

(* what follows the pieces that end in a name or a number *)
Definition cfollow (c : cclause) (rest : string) : Prop :=
  let tail := render_msg (cl_msg c) +++ rest in
  op_follow (cl_op c) (render_rhs rv (cl_rhs c) +++ tail) /\
  match cl_rhs c with
  | RhsNone => True
  | RhsValue _ t => follow t tail
  | RhsQuery _ q => query_end tail
  end /\
  (cl_msg c = None -> first_not (fun c => Ascii.eqb c "<") (skip_ws_comments rest) \/ str_prefix "<<" (skip_ws_comments rest) = false).

Lemma solid_first s : starts_solid s -> exists a r, s = String a r /\ is_ws a = false /\ is_hash a = false.
Proof. destruct s as [|a r]; [intros []|]. intros [H1 H2]. eauto. Qed.

Lemma solid_not_blank s Y : starts_solid s -> first_not is_blank (s +++ Y).
Proof.
  intros H. destruct (solid_first s H) as (a & r & -> & H1 & H2). cbn. destruct a as [[] [] [] [] [] [] [] []]; cbv in H1 |- *; try discriminate; reflexivity.
Qed.

Theorem clause_spelling_parses : forall c o rest, cwf c o -> cfollow c rest ->
  clause_top rv (crender rv c +++ rest) =
  POk (cdenote c o) (match cl_msg c with Some _ => rest | None => skip_ws_comments rest end).
Proof.
  intros [w0 ng q w1 op rh msg] o rest (Hw0 & Hng & Hq & Hsolid & Hnn & Hw1 & Hop & Hwop & Hmatch & Hrhs & Hmsg & Hsep) (Hof & Hrf & Hmf).
  unfold crender, cdenote, clause_top. cbn [cl_w0 cl_neg cl_query cl_w1 cl_op cl_rhs cl_msg] in *. norm.
  set (tail := render_msg msg +++ rest) in *.
  set (afterq := w1 +++ (render_op op +++ (render_rhs rv rh +++ tail))).
  set (n := S (len (w0 +++ (render_neg ng +++ (qrender q +++ afterq))))).
  unfold clause. rewrite (skip_layout w0 _ Hw0).
  (* the operator's first character *)
  destruct (render_op_first op o (render_rhs rv rh +++ tail) Hop) as (oa & or' & Eop & Hoc & Hosym).
  destruct (op_char_facts oa Hoc) as (O1 & O2 & O3 & O4 & O5).
  assert (Hend : query_end afterq).
  { unfold afterq. rewrite Eop. split.
    - destruct Hw1 as [|a w Ha Hw|body w Hb Hw]; cbn [append name_end].
      + split; [|exact O5]. specialize (Hsep eq_refl). destruct op as [s|[|u b|] t]; try contradiction; exact Hosym.
      + destruct a as [[] [] [] [] [] [] [] []]; cbv in Ha; try discriminate; cbv; split; reflexivity.
      + cbv. split; reflexivity.
    - rewrite (skip_layout w1 _ Hw1). rewrite (skip_solid oa _ O1 O2). split; assumption. }
  pose proof (parts_name_end (c_parts q) afterq (proj2 (proj2 Hq)) Hend) as Hne.
  (* the negation *)
  destruct (solid_first _ Hsolid) as (qa & qr & Eq & Q1 & Q2).
  assert (Estart : skip_ws_comments (render_neg ng +++ (qrender q +++ afterq)) = render_neg ng +++ (qrender q +++ afterq) /\
          match not_kw (render_neg ng +++ (qrender q +++ afterq)) with Some r => (true, r) | None => (false, render_neg ng +++ (qrender q +++ afterq)) end
          = (neg_flag ng, qrender q +++ afterq)).
  { destruct ng as [|u b|]; cbn [neg_flag].
    - cbn [render_neg append]. split; [rewrite Eq; cbn [append]; now apply skip_solid|].
      now rewrite (query_not_negation q afterq Hq Hsolid Hnn Hne).
    - split; [cbn [render_neg]; destruct u; norm; now apply skip_solid|].
      rewrite (not_kw_spelled (NWord u b) _ Hng eq_refl (solid_not_blank _ afterq Hsolid)). reflexivity.
    - split; [cbn [render_neg]; norm; now apply skip_solid|].
      rewrite (not_kw_spelled NBang _ I eq_refl (solid_not_blank _ afterq Hsolid)). reflexivity. }
  destruct Estart as [Es En]. rewrite Es, En.
  (* the query *)
  assert (Hn1 : List.length (c_parts q) < n).
  { unfold n, qrender. pose proof (render_parts_len (c_parts q)). rewrite !len_app. lia. }
  rewrite (query_spelling_parses_at q afterq n Hq Hend Hn1).
  (* the operator *)
  unfold afterq at 1. rewrite (skip_layout w1 _ Hw1). rewrite Eop at 1. rewrite (skip_solid oa _ O1 O2). rewrite <- Eop.
  rewrite (op_spelled op o _ Hop Hwop Hof).
  (* the right-hand side *)
  destruct rh as [|w t|w q2]; cbn [rhs_matches_op wf_rhs render_rhs denote_rhs] in *.
  - rewrite Hmatch. cbn [append]. unfold with_message, tail. rewrite (opt_message_spelled msg rest Hmsg Hmf). reflexivity.
  - rewrite Hmatch. destruct Hrhs as [Hw Ht]. norm. rewrite (parse_value_layout rv n w _ Hw).
    rewrite (parse_value_fuel_irrelevant rv (render t +++ tail) n).
    + rewrite (spelling_parses rv t tail Ht Hrf). unfold with_message, tail. rewrite (opt_message_spelled msg rest Hmsg Hmf). reflexivity.
    + unfold value_fuel, n, afterq. cbn [render_rhs]. rewrite !len_app. lia.
  - rewrite Hmatch. destruct Hrhs as (Hw & Hq2 & Hs2 & v & Hv). norm.
    destruct q2 as [sm2 h2 ps2]. cbn [c_some c_head] in Hs2, Hv. subst sm2 h2.
    assert (Eq2 : qrender (mkCQ None (CVar v) ps2) +++ tail = String "%" (v +++ (render_parts ps2 +++ tail))).
    { unfold qrender. cbn [c_some c_head c_parts render_some render_head]. norm. reflexivity. }
    rewrite (parse_value_layout rv n w _ Hw). rewrite Eq2. unfold n. rewrite (parse_value_closer rv _ "%" _ eq_refl). fold n.
    rewrite (skip_layout w _ Hw). rewrite (skip_solid "%" _ eq_refl eq_refl).
    assert (Ef : function_like (String "%" (v +++ (render_parts ps2 +++ tail))) = PErr).
    { unfold function_like. now rewrite (var_name_not "%" _ eq_refl). }
    rewrite Ef. rewrite <- Eq2.
    assert (Hn2 : List.length (c_parts (mkCQ None (CVar v) ps2)) < n).
    { unfold n, afterq. cbn [c_parts render_rhs]. pose proof (render_parts_len ps2). unfold qrender at 2. cbn [c_some c_head c_parts render_some render_head].
      repeat first [ rewrite len_app | progress cbn [String.length append] ]. lia. }
    rewrite (query_spelling_parses_at (mkCQ None (CVar v) ps2) tail n Hq2 Hrf Hn2).
    unfold with_message, tail. rewrite (opt_message_spelled msg rest Hmsg Hmf). reflexivity.
Qed.

(* two spellings of one clause *)
Corollary clause_spellings_agree : forall c1 c2 o rest, cwf c1 o -> cwf c2 o -> cfollow c1 rest -> cfollow c2 rest ->
  cdenote c1 o = cdenote c2 o -> (cl_msg c1 = None <-> cl_msg c2 = None) ->
  clause_top rv (crender rv c1 +++ rest) = clause_top rv (crender rv c2 +++ rest).
Proof.
  intros c1 c2 o rest W1 W2 F1 F2 E M. rewrite (clause_spelling_parses c1 o rest W1 F1), (clause_spelling_parses c2 o rest W2 F2). rewrite E.
  destruct (cl_msg c1), (cl_msg c2); try reflexivity; exfalso; [destruct M as [_ M]; specialize (M eq_refl)|destruct M as [M _]; specialize (M eq_refl)]; discriminate.
Qed.

(* whichever way the negation in front of a clause is spelled, the parsed clause carries it; no negation, no flag *)
Corollary spelled_negation_sets_the_flag : forall c o rest, cwf c o -> cfollow c rest ->
  exists pc r, clause_top rv (crender rv c +++ rest) = POk pc r /\ pc_neg pc = neg_flag (cl_neg c) /\ pc_cmp pc = o.
Proof. intros c o rest W F. eexists; eexists. split; [apply (clause_spelling_parses c o rest W F)|]. split; reflexivity. Qed.

End Spelling.
