"""C14 — alternative spellings, layout and comments do not change a rule file's meaning (partial).

proof   : Props/C14.v over Model/Lex.v and the keyword tables regenerated from parser.rs (synonym classes, white space and
          comments, quoted strings)
tie     : translator tools/gv/tables.py (keyword tables); the string-quoting model against the parser through the hook
          lit_dump on generated strings in both quote styles
monitor : generated ASTs pretty-printed under every choice of one token class at a time (keyword case, not/NOT/!, or/OR/|OR|,
          =/:=, quote character, True/False, NULL, indentation, blank lines, line breaks inside lists, # comments) and under
          random combinations: the parser's AST (locations removed) must equal the AST of the default spelling; for the
          spellings that change the AST by design (.n vs [n], an explicit leading this.) the verdicts on the documents must
          be equal; clauses outside any rule must evaluate like the body of `rule default`; a type block must evaluate like
          Resources.*[ Type == '...' ] { ... }
not modelled: the nom grammar as a whole.
"""
import json, random, copy, re
from .. import coqterm as ct
from .. import impl, model, gen, e2e
from ..common import *

HEADER = 'From Coq Require Import String Ascii.\nFrom GV.Model Require Import Lex.\n'

SINGLE = [('upper_kw', True), ('not_form', 'NOT'), ('not_form', '!'), ('or_form', 'OR'), ('or_form', '|OR|'), ('assign', ':='), ('quote', "'"),
          ('cap_bool', True), ('upper_null', True), ('indent', ''), ('indent', '\t'), ('indent', '        '), ('comments', True), ('extra_nl', True),
          ('list_nl', True), ('opneg', 'not'), ('or_lead', True), ('alt_comments', True)]


def strip_loc(j):
    if isinstance(j, list):
        if j and j[0] == 'Loc':
            return ['Loc']
        return [strip_loc(x) for x in j]
    if isinstance(j, dict):
        return {k: strip_loc(v) for k, v in j.items()}
    return j


def add_this(prog):
    """an explicit leading this. on every query that starts with a key"""
    v = copy.deepcopy(prog)
    def fix_q(q):
        if q['parts'] and q['parts'][0][0] == 'key':
            q['parts'].insert(0, ('this',))
        for p in q['parts']:
            if p[0] == 'filter':
                fix_cnf(p[1])
    def fix_cnf(cnf):
        for line in cnf:
            for c in line:
                fix_clause(c)
    def fix_clause(c):
        if c[0] == 'cmp':
            fix_q(c[2])
        elif c[0] == 'block':
            fix_q(c[1]); fix_cnf(c[3]['cnf'])
        elif c[0] == 'when':
            fix_cnf(c[1]); fix_cnf(c[2]['cnf'])
        elif c[0] == 'type':
            if c[2]:
                fix_cnf(c[2])
            fix_cnf(c[3]['cnf'])
    for r in v['rules']:
        if r.get('when'):
            fix_cnf(r['when'])
        fix_cnf(r['block']['cnf'])
    return v


def run_styles(ctx, nprog, ncombo):
    rng = random.Random(ctx.seed * 809 + 14)
    progs = []
    ops, meta = [], []
    for k in range(nprog):
        doc, prog = gen.gen_pair(rng, {'cycles': 0.0})
        progs.append((doc, prog))
        base = gen.render_file(prog)
        ops.append({'op': 'ast', 'rules': base}); meta.append((k, 'base', base))
        styles = [dict([s]) for s in SINGLE] + [{'or_lead': True, 'comments': True}, {'or_lead': True, 'comments': True, 'extra_nl': True}]
        for _ in range(ncombo):
            st = {}
            for key in ('upper_kw', 'cap_bool', 'upper_null', 'comments', 'extra_nl', 'list_nl', 'or_lead', 'alt_comments'):
                st[key] = rng.random() < 0.5
            st['not_form'] = rng.choice(['not', 'NOT', '!'])
            st['or_form'] = rng.choice(['or', 'OR', '|OR|'])
            st['assign'] = rng.choice(['=', ':='])
            st['quote'] = rng.choice(['"', "'"])
            st['indent'] = rng.choice(['', ' ', '  ', '\t', '      '])
            st['opneg'] = rng.choice(['!', 'not'])
            styles.append(st)
        for st in styles:
            t = gen.render_file(prog, st)
            ops.append({'op': 'ast', 'rules': t}); meta.append((k, json.dumps(st, sort_keys=True), t))
        # text-level layouts: trailing blanks on every line, line breaks inside filters (the generator's strings hold no brackets)
        b0 = gen.render_file(prog)
        tw = ''.join(l + rng.choice([' ', '   ', '\t', ' \t ']) + '\n' for l in b0.split('\n'))
        ops.append({'op': 'ast', 'rules': tw}); meta.append((k, json.dumps({'trailing_ws': True}), tw))
        # how the file begins and ends: no final newline, a comment as the very last thing (with and without a newline after
        # it), a comment after the last clause on its line, comments and blank lines before the first rule, several final newlines
        core = b0.rstrip('\n')
        for lab2, t2 in (('eof_no_newline', core), ('eof_comment_no_newline', core + '\n# the end'), ('eof_comment_newline', core + '\n# the end\n'),
                         ('eof_same_line_comment_no_newline', core + ' # the end'), ('eof_blank_lines', core + '\n\n\n'), ('eof_spaces', core + '\n   '),
                         ('bof_comment', '# header\n\n' + b0), ('bof_blank', '\n\n  \n' + b0), ('eof_hash_only', core + '\n#')):
            ops.append({'op': 'ast', 'rules': t2}); meta.append((k, json.dumps({lab2: True}), t2))
        # a filter whose first clause starts with a QUOTED key, directly after the bracket and after a blank / a line break
        for lab2, rep in (('filter_quoted_key_tight', r"['\1' "), ('filter_dquoted_key_tight', r'["\1" '), ('filter_quoted_key_spaced', r"[ '\1' "), ('filter_quoted_key_nl', "[\n      '\\1' ")):
            fq = re.sub(r'\[ (?!(?:keys|KEYS|this|THIS|some|SOME|not|NOT|when|WHEN)\b)([A-Za-z_][A-Za-z0-9_]*) ', rep, b0)
            if fq != b0:
                ops.append({'op': 'ast', 'rules': fq}); meta.append((k, json.dumps({lab2: True}), fq))
        if '"' not in re.sub(r'"[^"\[\]\n]*"', '', b0):
            fn = re.sub(r'\[ ', '[\n      ', re.sub(r' \]', '\n    ]', b0))
            if fn != b0:
                ops.append({'op': 'ast', 'rules': fn}); meta.append((k, json.dumps({'filter_nl': True}), fn))
    res = impl.run_ops_parallel(ops, ctx.wd, 'c14ast')
    base_ast = {}
    for (k, lab, text), r in zip(meta, res):
        if lab == 'base':
            base_ast[k] = (r.get('res'), text)
    n, dims = 0, {}
    for (k, lab, text), r in zip(meta, res):
        if lab == 'base':
            continue
        b, btext = base_ast[k]
        a = r.get('res')
        if not b or b[0] != 'Ok':
            continue                     # the default spelling itself is rejected (generator produced a non-program)
        n += 1
        for key in json.loads(lab):
            dims[key] = dims.get(key, 0) + 1
        info = {'class': 'spelling', 'style': lab, 'rules': btext, 'variant': text}
        if not a or a[0] != 'Ok':
            ctx.failing('the spelling %s is rejected by the parser although the default spelling is accepted: %s' % (lab, str(a)[:200]), info, found=True)
        elif strip_loc(a[1]) != strip_loc(b[1]):
            ctx.failing('the spelling %s parses to a different program' % lab, info, found=True)
    ctx.coverage['style_variants_compared'] = n
    ctx.coverage['style_dimension_counts'] = dims
    ctx.coverage['evaluations'] += len(ops)
    ctx.sample({'rules': base_ast[0][1], 'variant': [t for (k, lab, t) in meta if k == 0 and lab != 'base'][0], 'style': [lab for (k, lab, t) in meta if k == 0 and lab != 'base'][0]})
    return n, progs


def verdicts(outcome, raw):
    if outcome in ('PASS', 'FAIL', 'SKIP'):
        d = {}
        for nme, s in e2e.rule_statuses(raw):
            if nme.endswith('/default'):
                nme = 'default'          # parser.rs:1906: the implicit rule is named <file>/default
            d.setdefault(nme, []).append(s)
        return (outcome, d)
    return (outcome, None)


def run_semantic(ctx, progs):
    """spellings that change the AST by design: verdict equality"""
    rng = random.Random(ctx.seed * 809 + 15)
    pairs, meta = [], []
    for k, (doc, prog) in enumerate(progs):
        base = gen.render_file(prog)
        variants = [('dotidx', gen.render_file(prog, {'dotidx': True})), ('bracketidx', gen.render_file(prog, {'dotidx': False})), ('this-prefix', gen.render_file(add_this(prog)))]
        for lab, text in [('base', base)] + variants:
            if lab != 'base' and text == base:
                continue
            pairs.append((text, json.dumps(doc))); meta.append((k, lab, text))
    # default rule and type block equivalences
    tb = []
    for i in range(120):
        cfn = gen.gen_cfn(rng)
        if not (isinstance(cfn.get('Resources'), dict) and cfn['Resources'] and all(isinstance(v, dict) for v in cfn['Resources'].values())):
            continue
        t = rng.choice(gen.TYPES)
        body = rng.choice(['Properties exists', 'Properties.Size >= 0 or\n    Properties.Enabled == true', 'Type == "%s"' % t, 'Properties.Tags[*].Key exists', 'Properties !empty',
                           'when Properties.Zzz exists {\n      Properties exists\n    }', 'when Type == "nothing" {\n      Type exists\n    }',
                           'when Properties.Size exists {\n      Properties.Size >= 0\n    }\n    when Properties.Zzz exists {\n      Type exists\n    }',
                           'Properties.Zzz[*] {\n      a exists\n    }', 'Properties.Tags[*] {\n      Key exists\n    }'])
        a = 'rule r {\n  %s {\n    %s\n  }\n}\n' % (t, body)
        b = "rule r {\n  Resources.*[ Type == '%s' ] {\n    %s\n  }\n}\n" % (t, body)
        tb.append((a, b, cfn))
        c1 = 'a exists\nb == 1 or\nc == 2\n'
        c2 = 'rule default {\n  a exists\n  b == 1 or\n  c == 2\n}\n'
        tb.append((c1, c2, rng.choice([{"a": 1, "b": 1}, {"a": 1, "c": 3}, {"b": 1}, {}])))
    # everything a rule body accepts, written outside any rule, against the same text as the body of `rule default`
    file_level = ['when b exists {\n  other\n  c == 2 or other\n}\n', 'when other {\n  a exists\n}\n',
                  "AWS::S3::Bucket {\n  Properties exists\n}\n", "AWS::S3::Bucket when a exists {\n  Properties exists\n}\na exists\n",
                  'Resources.* {\n  Type exists\n}\nsome Resources.*.Type == "AWS::S3::Bucket"\n', 'let v = a\n%v exists\nwhen %v == 1 {\n  other\n}\n',
                  'when a exists {\n  chk(a)\n  chk(b) or other\n}\n']
    # (a bare rule reference or a parameterised call as a LINE of the file is not in the grammar: a file-level line is an access
    # clause, a when block or a type block)
    fl_docs = [{'a': 1, 'b': 1, 'c': 2, 'Resources': {'x': {'Type': 'AWS::S3::Bucket', 'Properties': {}}}}, {'b': 2, 'Resources': {'x': {'Type': 'T'}}}, {'a': 1, 'Resources': {'x': {'Type': 'AWS::S3::Bucket'}}}]
    pre = 'rule other {\n  a exists\n}\nrule chk(p) {\n  %p exists\n}\n'
    for body in file_level:
        indented = ''.join('  ' + l + '\n' for l in body.rstrip('\n').split('\n'))
        if body.startswith('let '):
            first, restb = body.split('\n', 1)
            indented = '  ' + first + '\n' + ''.join('  ' + l + '\n' for l in restb.rstrip('\n').split('\n'))
        for d in fl_docs:
            tb.append((pre + body, pre + 'rule default {\n' + indented + '}\n', d))
    # documents in which the selection of the type block is unresolved: no `Resources`, an empty one, one that is not a struct
    # (recorded finding: the type block raises an evaluation error where the equivalent filter block FAILs)
    for d in ({}, {'Resources': {}}, {'Other': 1}, {'Resources': []}):
        for body in ('Properties exists', 'when Properties.Zzz exists {\n      Properties exists\n    }'):
            t = gen.TYPES[0]
            tb.append(('rule r {\n  %s {\n    %s\n  }\n}\n' % (t, body), "rule r {\n  Resources.*[ Type == '%s' ] {\n    %s\n  }\n}\n" % (t, body), d))
    # `.n` against `[n]` with every kind of index: zero, positive, NEGATIVE, beyond the end, after `[*]`, twice in a row, in a `let`
    idx_docs = [{'l': [1, 2, 3], 'n': [[1, 2], [3, 4]], 'm': {'k': [5, 6]}}, {'l': [9], 'n': [[7]], 'm': {'k': []}}, {'l': [], 'n': [], 'm': {}}]
    idx_bodies = ['l.%s == 2', 'l.%s exists', 'n.%s.%s == 4', 'n[*].%s >= 2', 'm.k.%s == 6 or l.%s == 1', 'some n[*].%s == 3', 'n.%s[*] > 0']
    for body in idx_bodies:
        for i1 in ('0', '1', '-1', '-2', '5', '-7'):
            a = 'let x = l.%s\nrule r {\n  %s\n  %%x exists\n}\n' % (i1, body.replace('%s', i1))
            b = 'let x = l[%s]\nrule r {\n  %s\n  %%x exists\n}\n' % (i1, body.replace('.%s', '[' + i1 + ']'))
            for d in idx_docs:
                tb.append((a, b, d))
    # a first path segment that merely STARTS with the letters of a keyword (some, keys, not, or, let, in, exists, empty, is_, rule,
    # null, true): written bare and with the explicit leading `this.` (names starting with this / when are rejected by the
    # grammar when written bare - a loud parse error, not a change of meaning - and are left out)
    kwn = ['somePort', 'something', 'SOMEFLAG', 'keysList', 'KEYS_x', 'notes', 'NOTE', 'orders', 'ORigin', 'android', 'letter', 'lets', 'inner', 'INNER',
           'existsFlag', 'emptyList', 'is_listed', 'ruleset', 'nullable', 'trueValue']
    for w in kwn:
        for val, docv in ((1, 1), (1, 2)):
            d = {w: docv, 'o': {w: [docv, docv]}}
            tb.append(('rule r {\n  %s == %d\n}\n' % (w, val), 'rule r {\n  this.%s == %d\n}\n' % (w, val), d))
            if w in ('nullable', 'trueValue'):
                continue      # as the value of a `let` these start like a literal (null / true) and are rejected: loud, not a change of meaning
            tb.append(('let x = %s\nrule r {\n  %%x == %d\n  o {\n    %s[*] == %d\n  }\n}\n' % (w, val, w, val), 'let x = this.%s\nrule r {\n  %%x == %d\n  o {\n    this.%s[*] == %d\n  }\n}\n' % (w, val, w, val), d))
    # an explicit `this.` INSIDE a filter (the element being filtered), at every place a filter can stand: after a key, in a block
    # over several values, nested in another filter, in a `let`, in a when condition, with `some`, in an or-line
    tags_a = [{'Key': 'env', 'Value': 'prod'}, {'Key': 'x', 'Value': 'y'}]
    tags_b = [{'Key': 'env', 'Value': 'dev'}]
    fdocs = [{'Key': 'outer', 'Tags': tags_a, 'Resources': {'a': {'Type': 'T', 'Key': 'res', 'Properties': {'Tags': tags_a}}, 'b': {'Type': 'T', 'Properties': {'Tags': tags_b}}},
              'l': [{'k': 1, 'v': [{'k': 2}]}, {'k': 9, 'v': [{'k': 3}]}]},
             {'Key': 'env', 'Tags': tags_b, 'Resources': {'a': {'Type': 'T', 'Key': 'env', 'Properties': {'Tags': tags_b}}}, 'l': [{'k': 2, 'v': []}]},
             {'Tags': [], 'Resources': {}, 'l': []}]
    fbodies = ["Tags[ %sKey == 'env' ].Value == 'prod'", "Tags[ %sKey == 'env' ] !empty", "some Tags[ %sKey == 'env' ].Value == 'prod'",
               "Resources.* {\n    Properties.Tags[ %sKey == 'env' ].Value == 'prod'\n  }", "Resources.*[ %sType == 'T' ].Properties.Tags[ %sKey == 'env' ].Value == 'prod'",
               "l[ %sv[ %sk == 2 ] !empty ].k == 1", "l[ %sk == 9 or %sk == 1 ].v[*].k >= 2", "when Tags[ %sKey == 'env' ] !empty {\n    Tags[ %sKey == 'x' ].Value == 'y'\n  }",
               "Tags[ %sKey == 'env' ] {\n    %sValue == 'prod'\n  }", "Resources.*.Properties.Tags[ %sKey == 'env' ].Value in ['prod', 'dev']"]
    for body in fbodies:
        a = 'rule r {\n  %s\n}\n' % body.replace('%s', '')
        b = 'rule r {\n  %s\n}\n' % body.replace('%s', 'this.')
        a2 = "let t = Tags[ Key == 'env' ]\nrule r {\n  %%t.Value == 'prod'\n  %s\n}\n" % body.replace('%s', '')
        b2 = "let t = Tags[ this.Key == 'env' ]\nrule r {\n  %%t.Value == 'prod'\n  %s\n}\n" % body.replace('%s', 'this.')
        for d in fdocs:
            tb.append((a, b, d)); tb.append((a2, b2, d))
    # compact layout: a word operator directly followed by the next token (`]`, `}`, `<<`, `[`, a quote, `%`, `/`) against the same
    # clause with a blank there; `keys` filters and block closers likewise
    cdoc = [{'Resources': {'a': {'Type': 'T', 'Properties': {'Enc': True, 'Name': 'n', 'Tags': [1, 2]}}, 'b': {'Type': 'U', 'Properties': {'Name': 'm'}}}, 'x': 1, 'v': [1, 2]},
            {'Resources': {'a': {'Type': 'T', 'Properties': {'Enc': False, 'Name': '', 'Tags': []}}}, 'x': 3, 'v': []}]
    compact = [('Resources.*[ Properties.Enc exists ].Properties.Enc == true', 'Resources.*[ Properties.Enc exists].Properties.Enc == true'),
               ('Resources.* {\n    Properties.Name !empty }', 'Resources.* {\n    Properties.Name !empty}'),
               ('Resources.*[ Properties.Tags !empty ] {\n    Properties.Name exists }', 'Resources.*[ Properties.Tags !empty] {\n    Properties.Name exists}'),
               ('x exists <<msg>>', 'x exists<<msg>>'), ('x IN [1, 2]', 'x IN[1, 2]'), ('x in [1, 2]', 'x in[1, 2]'), ('x not in [3]', 'x not in[3]'),
               ('Resources.*.Properties.Name in ["n", "m"]', 'Resources.*.Properties.Name in["n", "m"]'), ('Resources.*.Properties.Name IN /n/', 'Resources.*.Properties.Name IN/n/'),
               ('x is_int <<m>>', 'x is_int<<m>>'), ('Resources.*[ Type IN ["T"] ].Properties.Enc exists', 'Resources.*[ Type IN["T"]].Properties.Enc exists'),
               ('v empty or x exists', 'v empty or x exists'), ('Resources.*[ Properties.Name is_string ] !empty', 'Resources.*[ Properties.Name is_string] !empty'),
               # blanks just inside the brackets: a named capture over a struct and over a list, with and without a use of the name, an index,
               # [*], a quoted key, a filter
               ('Resources[ res ] {\n    Properties.Name !empty\n  }', 'Resources[res] {\n    Properties.Name !empty\n  }'),
               ('Resources[ res ] {\n    Properties.Enc == true\n    %res exists\n  }', 'Resources[res] {\n    Properties.Enc == true\n    %res exists\n  }'),
               ('Resources[ res ].Properties.Name == "n"', 'Resources[res].Properties.Name == "n"'), ('Resources[ res ].Type in ["T"]', 'Resources[res].Type in ["T"]'),
               ('v[ i ] > 0', 'v[i] > 0'), ('some v[ i ] == 2', 'some v[i] == 2'), ('Resources.*.Properties.Tags[ t ] < 3', 'Resources.*.Properties.Tags[t] < 3'),
               ('v[ * ] >= 1', 'v[*] >= 1'),      # (an index and a quoted key take no blanks inside the brackets: `v[ 0 ]` is a parse error, in the parser and in QueryParse.v alike)
               ("Resources.*[ Type == 'T' ].Properties.Enc == true", "Resources.*[Type == 'T'].Properties.Enc == true")]
    for sp, co in compact:
        for d in cdoc:
            tb.append(('rule r {\n  %s\n}\n' % sp, 'rule r {\n  %s\n}\n' % co, d))
            tb.append(('let v2 = [1, 2]\nrule r {\n  %s\n  x in %%v2\n}\n' % sp, 'let v2 = [1, 2]\nrule r {\n  %s\n  x in%%v2\n}\n' % co, d))
    for i, (a, b, d) in enumerate(tb):
        pairs.append((a, json.dumps(d))); meta.append((10 ** 6 + i, 'base', a))
        pairs.append((b, json.dumps(d))); meta.append((10 ** 6 + i, 'equivalent-form', b))
    outs, raw = e2e.pair_outcomes(pairs, ctx.wd, 'c14sem', loader='cli')
    base = {}
    for (k, lab, text), o, r in zip(meta, outs, raw):
        if lab == 'base':
            base[k] = (verdicts(o, r), text)
    n = 0
    for idx, ((k, lab, text), o, r) in enumerate(zip(meta, outs, raw)):
        if lab == 'base':
            continue
        bv, btext = base[k]
        v = verdicts(o, r)
        if bv[0] in ('PANIC', 'ABORT') or v[0] in ('PANIC', 'ABORT'):
            continue
        n += 1
        if bv != v:
            data = pairs[idx][1]
            cls = 'equivalent-spelling'
            try:
                dj = json.loads(data)
            except ValueError:
                dj = None
            if lab == 'equivalent-form' and 'Resources.*[ Type ==' in text and isinstance(dj, dict) and not (isinstance(dj.get('Resources'), dict) and dj['Resources']) \
               and bv[0] not in ('PASS', 'FAIL', 'SKIP') and v[0] == 'FAIL':
                cls = 'type-block-unresolved-selection'
            ctx.failing('%s: verdicts %s become %s' % (lab, bv, v), {'class': cls, 'kind': lab, 'rules': btext, 'variant': text, 'data': data}, found=True)
    ctx.coverage['semantic_variants_compared'] = n
    ctx.coverage['evaluations'] += len(pairs)
    return n


def run_strings(ctx, n):
    """quoted strings: the model (Lex.parse_quoted) and the parser (hook lit_dump) read both quote styles back as the bytes"""
    rng = random.Random(ctx.seed * 809 + 16)
    alphabet = ['a', 'b', ' ', "'", '"', '\\', '#', 'é', '/', '<', '>', '%', '0']
    ops, meta, cases = [], [], []
    for i in range(n):
        s = ''.join(rng.choice(alphabet) for _ in range(rng.choice([0, 1, 2, 3, 5, 8])))
        if s.endswith('\\'):
            s += 'x'
        for q in ("'", '"'):
            text = q + s.replace(q, '\\' + q) + q
            ops.append({'op': 'lit', 'text': text})
            meta.append((s, q, text))
            cid = len(cases)
            qa = '"\'"%char' if q == "'" else '""""%char'
            cases.append((cid, '', 'match parse_quoted %s %s with Some (x, r) => andb (String.eqb x %s) (String.eqb r "") | None => false end' % (qa, ct.cstr(text), ct.cstr(s))))
    res = impl.run_ops_parallel(ops, ctx.wd, 'c14lit')
    for (s, q, text), r in zip(meta, res):
        rr = r.get('res')
        ok = rr and rr[0] == 'Ok' and rr[1][0] == 'PString' and ct.S(rr[1][2]) == s
        if not ok:
            ctx.failing('the %s-quoted spelling of %r is read back as %s' % ('single' if q == "'" else 'double', s, str(rr)[:120]),
                        {'class': 'string-quoting', 'string': s, 'text': text}, found=True)
    verdicts_, errors = model.eval_cases(cases, ctx.wd, 'c14str', header=HEADER, per_file=200)
    if errors:
        raise ToolingError('model evaluation failed: %r' % (errors[:1],))
    for cid, _, _ in cases:
        if verdicts_.get(cid) != 'true':
            s, q, text = meta[cid]
            ctx.failing('Lex.parse_quoted does not read %r back from %s (model / parser correspondence)' % (s, text), {'class': 'lex-correspondence', 'string': s, 'text': text}, found=False)
    ctx.coverage['quoted_strings'] = len(ops)
    ctx.coverage['evaluations'] += len(ops)
    return len(ops)


def run_values(ctx, n):
    """the value-literal grammar: (1) Model/ValueParse.v against parser.rs parse_value through the hook `pvalue` - value, stop
    offset and nom error class on every scalar spelling alone / with a tail / inside lists and maps, generated nested literals with
    layout and comments at every position, broken literals and one-character mutations; (2) the statement itself on the
    implementation: several spellings of one abstract value (layout, comments, quote characters, keyword case, leading zeros, bare
    or quoted keys) give the same parsed value, stopping at the end of the text."""
    from .. import vparse
    texts = vparse.corpus(ctx.seed, n)
    out = vparse.run(texts, ctx.wd, 'c14vp')
    stats = {}
    for t, v, r in out:
        stats[v] = stats.get(v, 0) + 1
        if v in ('PVAgree', 'PVAgreeReject', 'PVNotModelled'):
            continue
        ctx.failing('value literal %r: parse_value answers %s, the model of the value grammar says otherwise (%s)' % (t[:80], json.dumps(r)[:160], v),
                    {'class': 'value-grammar-correspondence', 'text': t, 'impl': r, 'verdict': v}, found=False)
    groups = vparse.spelling_groups(ctx.seed, max(40, n // 10))
    flat = [s for _, ss in groups for s in ss]
    res = impl.run_ops_parallel([{'op': 'pvalue', 'text': s} for s in flat], ctx.wd, 'c14sp')
    k = 0
    bad = 0
    for v, ss in groups:
        rs = res[k:k + len(ss)]; k += len(ss)
        vals = []
        for s, r in zip(ss, rs):
            rr = r.get('res')
            if not rr or rr[0] != 'Ok' or rr[2] != len(s.encode('utf-8')):
                ctx.failing('the spelling %r of a value is not read to its end: %s' % (s[:100], json.dumps(rr)[:160]),
                            {'class': 'value-spelling', 'abstract': repr(v), 'spelling': s, 'impl': rr}, found=True)
                bad += 1
                vals = None
                break
            vals.append(json.dumps(rr[1], sort_keys=True))
        if vals and len(set(vals)) != 1:
            ctx.failing('spellings of one value are read as different values: %r' % (ss,), {'class': 'value-spelling', 'abstract': repr(v), 'spellings': ss, 'values': vals}, found=True)
    ctx.coverage['value_texts'] = len(texts)
    ctx.coverage['value_verdicts'] = stats
    ctx.coverage['value_spelling_groups'] = len(groups)
    ctx.coverage['evaluations'] += len(texts) + len(flat)
    return stats.get('PVAgree', 0) + stats.get('PVAgreeReject', 0) + len(groups) - bad


def run_queries(ctx, n):
    """the query grammar: (1) Model/QueryParse.v against parser.rs `access` through the hook `paccess` - the parsed query, match_all,
    stop offset and nom error class on every head / part / index / key spelling alone and with tails, generated queries with layout
    and comments at every position, broken brackets and one-character mutations; (2) the statement itself on the implementation:
    several spellings of one abstract query (.n / [n], leading zeros, bare / quoted / bracketed keys, some / SOME, this / THIS,
    layout around every part) give the same parsed query."""
    from .. import qparse
    texts = qparse.corpus(ctx.seed, n)
    out = qparse.run(texts, ctx.wd, 'c14qp')
    stats = {}
    for t, v, r in out:
        stats[v] = stats.get(v, 0) + 1
        if v in ('PAAgree', 'PAAgreeReject', 'PANotModelled'):
            continue
        ctx.failing('query %r: `access` answers %s, the model of the query grammar says otherwise (%s)' % (t[:80], json.dumps(r)[:160], v),
                    {'class': 'query-grammar-correspondence', 'text': t, 'impl': r, 'verdict': v}, found=False)
    ftexts = qparse.filter_corpus(ctx.seed, max(600, n // 2))
    fout = qparse.run_filters(ftexts + texts[::4], ctx.wd, 'c14fl')
    fstats = {}
    for t, v, r in fout:
        fstats[v] = fstats.get(v, 0) + 1
        if v in ('PAAgree', 'PAAgreeReject', 'PANotModelled'):
            continue
        ctx.failing('query with filters %r: `access` answers %s, the model of the grammar with filters says otherwise (%s)' % (t[:80], json.dumps(r)[:160], v),
                    {'class': 'filter-grammar-correspondence', 'text': t, 'impl': r, 'verdict': v}, found=False)
    ctx.coverage['filter_query_texts'] = len(fout)
    ctx.coverage['filter_query_verdicts'] = fstats
    ctx.coverage['evaluations'] += len(fout)
    groups = qparse.spelling_groups(ctx.seed, max(60, n // 8))
    flat = [s for ss in groups for s in ss]
    res = impl.run_ops_parallel([{'op': 'paccess', 'text': s} for s in flat], ctx.wd, 'c14qs')
    k, bad = 0, 0
    for ss in groups:
        rs = res[k:k + len(ss)]; k += len(ss)
        vals = []
        for s, r in zip(ss, rs):
            rr = r.get('res')
            if not rr or rr[0] != 'Ok':
                ctx.failing('the spelling %r of a query is not accepted: %s' % (s[:100], json.dumps(rr)[:160]), {'class': 'query-spelling', 'spelling': s, 'plain': ss[0], 'impl': rr}, found=True)
                bad += 1
                vals = None
                break
            vals.append((json.dumps(rr[1], sort_keys=True), s.encode('utf-8')[rr[2]:]))
        if vals and len(set(vals)) != 1:
            ctx.failing('spellings of one query are read as different queries: %r' % (ss,), {'class': 'query-spelling', 'spellings': ss, 'queries': [v_[0] for v_ in vals]}, found=True)
    ctx.coverage['query_texts'] = len(texts)
    ctx.coverage['query_verdicts'] = stats
    ctx.coverage['query_spelling_groups'] = len(groups)
    ctx.coverage['evaluations'] += len(texts) + len(flat)
    return stats.get('PAAgree', 0) + stats.get('PAAgreeReject', 0) + len(groups) - bad


def run(ctx):
    ctx.build()
    pr = ctx.proofs('C14')
    thorough = ctx.tier == 'thorough'
    n1, progs = run_styles(ctx, 300 if thorough else 40, 6 if thorough else 3)
    n2 = run_semantic(ctx, progs)
    n3 = run_strings(ctx, 600 if thorough else 120)
    n3 += run_values(ctx, 6000 if thorough else 1500)
    n3 += run_queries(ctx, 8000 if thorough else 2500)
    from .. import qparse as _qp
    n3 += _qp.check_operators(ctx, 'c14op')
    n3 += _qp.check_clauses(ctx, 'c14cl', 6000 if thorough else 2000)
    n3 += _qp.check_conditions(ctx, 'c14cn', 5000 if thorough else 1800)
    n3 += _qp.check_assignments(ctx, 'c14let', 4000 if thorough else 1500)
    n3 += _qp.check_calls(ctx, 'c14call', 3000 if thorough else 1000)
    from .. import fullparse as _fp
    n3 += _fp.check_files(ctx, 'c14file', 4000 if thorough else 900)
    ctx.coverage['distinct_nontrivial'] = n1 + n2 + n3
    ctx.coverage['rule'] = ('generated programs printed under %d single-dimension spellings (exhaustive per token class) and random combinations; AST equality (locations removed) with the '
                            'default spelling; .n / [n] / leading this. / type block vs filter block / default rule compared on verdicts; random strings over an alphabet with both quote '
                            'characters, backslash, #, non-ASCII in both quote styles' % len(SINGLE))
    ctx.coverage['trusted_base'] = [
        'Coq 8.16.1 kernel (coqc), vm_compute; no axioms',
        'Lex.v, ValueParse.v, QueryParse.v, OpParse.v, ClauseParse.v, CnfParse.v, FilterParse.v, ClauseFParse.v, CnfFParse.v, LetParse.v, CallParse.v, FullParse.v (modelled, not verified; tied by the hooks parse_value_dump / parse_access_dump / parse_cmp_dump / parse_clause_dump / parse_conditions_dump / parse_let_dump: value / query / operator / clause / conditions, stop offset, nom error class) + translator tools/gv/tables.py for the keyword tables; hooks ast_dump / lit_dump',
        'the pretty-printer of tools/gv/gen.py (a spelling the printer cannot produce is not exercised)',
    ]
    ctx.assumptions = ['the type-block equivalence is compared on templates whose Resources is a non-empty map of maps (otherwise the type block raises an error where the filter block FAILs: recorded in DESIGN.md)']
    if not pr['ok']:
        ctx.failing('proof obligations of Props/C14.v no longer check: %s' % (pr.get('problems') or pr.get('log', '')[-500:]),
                    {'class': 'proof', 'theorems': pr['theorems']}, found=False)


def replay(ctx, path):
    j = json.load(open(path))
    for v in j.get('violations', []):
        print(json.dumps(v, indent=1)[:3000])
    return 0
