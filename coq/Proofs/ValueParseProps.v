(* ValueParseProps.v — the value-literal grammar (Model/ValueParse.v): every parser consumes input (so nesting depth and
   list length are bounded by the length of the text and `value_fuel` always suffices), the answer does not depend on the
   fuel once it suffices, layout in front of a value is irrelevant, and every concrete spelling of a value (any layout at
   every position the grammar allows it, either quote style, either keyword spelling) parses to that value. *)
From Coq Require Import Lia.
From GV.Model Require Import ValueParse.
From GV.Proofs Require Import LexProps.
Local Open Scope string_scope.
Local Open Scope nat_scope.

Notation len := String.length.

(* ------------------------------------------------------------------ consumption *)
Lemma len_app a b : len (a +++ b) = len a + len b.
Proof. induction a as [|c a IH]; cbn; [reflexivity|now rewrite IH]. Qed.

Lemma skip_len : forall s b, len (skip b s) <= len s.
Proof.
  induction s as [|c s IH]; intros b; cbn; [lia|].
  destruct b.
  - destruct (is_nl c); [specialize (IH false)|specialize (IH true)]; lia.
  - destruct (is_ws c); [specialize (IH false); lia|]. destruct (is_hash c); [specialize (IH true); lia|]. cbn. lia.
Qed.

Lemma span_while_len p : forall s a b, span_while p s = (a, b) -> len s = len a + len b.
Proof.
  induction s as [|c s IH]; intros a b H; cbn in H.
  - inversion H; subst. reflexivity.
  - destruct (p c).
    + destruct (span_while p s) as [a' b'] eqn:E. inversion H; subst. cbn. rewrite (IH a' b eq_refl). reflexivity.
    + inversion H; subst. reflexivity.
Qed.

Lemma expect_len c s r : expect c s = Some r -> len s = S (len r).
Proof. destruct s as [|a s]; cbn; [discriminate|]. destruct (Ascii.eqb a c); [|discriminate]. intros E. inversion E. reflexivity. Qed.

Lemma ws_char_len c s r : ws_char c s = Some r -> len r < len s.
Proof. unfold ws_char. intros H. apply expect_len in H. pose proof (skip_len s false). unfold skip_ws_comments in H. lia. Qed.

Lemma drop_len : forall n s, len (drop n s) <= len s.
Proof. induction n as [|n IH]; intros s; cbn; [lia|]. destruct s as [|c s]; cbn; [lia|]. specialize (IH s). lia. Qed.

Lemma drop_len_prefix : forall t s, str_prefix t s = true -> len s = len t + len (drop (len t) s).
Proof.
  induction t as [|a t IH]; intros s H; cbn in *; [reflexivity|].
  destruct s as [|b s]; [discriminate|]. apply andb_prop in H as [_ H]. cbn. rewrite (IH s H) at 1. reflexivity.
Qed.

Lemma alt_tags_len tags : Forall (fun t => t <> EmptyString) tags -> forall s r, alt_tags tags s = Some r -> len r < len s.
Proof.
  induction 1 as [|t tags Ht _ IH]; intros s r H; cbn in H; [discriminate|].
  destruct (str_prefix t s) eqn:E; [|apply IH; exact H].
  inversion H; subst. apply drop_len_prefix in E. destruct t; [congruence|]. cbn in *. lia.
Qed.

Lemma kw_null_nonempty : Forall (fun t => t <> EmptyString) kw_parse_null.
Proof. repeat constructor; discriminate. Qed.
Lemma kw_true_nonempty : Forall (fun t => t <> EmptyString) kw_bool_true.
Proof. repeat constructor; discriminate. Qed.
Lemma kw_false_nonempty : Forall (fun t => t <> EmptyString) kw_bool_false.
Proof. repeat constructor; discriminate. Qed.

Lemma read_quoted_r_len q : forall s p acc a r, read_quoted_r q s p acc = POk a r -> len r < len s.
Proof.
  induction s as [|c s IH]; intros p acc a r H; cbn in H; [destruct p; discriminate|].
  destruct (Ascii.eqb c q).
  - destruct p; [apply IH in H; cbn; lia|]. inversion H; subst. cbn. lia.
  - destruct (Ascii.eqb c "\"); apply IH in H; cbn; lia.
Qed.

Lemma palt_ok {A} (x y : pres A) a r : palt x y = POk a r -> x = POk a r \/ (x = PErr /\ y = POk a r).
Proof. destruct x; cbn; intros H; try discriminate; auto. Qed.

Lemma parse_string_r_len s a r : parse_string_r s = POk a r -> len r < len s.
Proof.
  unfold parse_string_r, parse_quoted_r. intros H.
  apply palt_ok in H as [H|[_ H]].
  - destruct (expect "'" s) as [s1|] eqn:E; [|discriminate]. apply expect_len in E. apply read_quoted_r_len in H. lia.
  - destruct (expect """" s) as [s1|] eqn:E; [|discriminate]. apply expect_len in E. apply read_quoted_r_len in H. lia.
Qed.

Lemma read_regex_len : forall s acc seg a r, read_regex s acc seg = POk a r -> len r <= len s.
Proof.
  induction s as [|c s IH]; intros acc seg a r H; cbn in H; [discriminate|].
  destruct (Ascii.eqb c "/").
  - destruct seg as [|x seg]; [discriminate|].
    destruct (last_is_backslash (String x seg)); [apply IH in H; cbn; lia|]. inversion H; subst. lia.
  - apply IH in H. cbn. lia.
Qed.

Lemma parse_int_len s v r : parse_int s = POk v r -> len r < len s.
Proof.
  unfold parse_int. destruct (span_while is_digit s) as [d r0] eqn:E. apply span_while_len in E.
  destruct d as [|c d].
  - destruct (expect "-" s) as [s1|] eqn:E1; [|discriminate]. apply expect_len in E1.
    destruct (span_while is_digit s1) as [d1 r1] eqn:E2. apply span_while_len in E2.
    destruct d1 as [|c1 d1]; [discriminate|]. destruct (Z.leb _ _); [|discriminate]. intros H; inversion H; subst. cbn in *. lia.
  - destruct (Z.leb _ _); [|discriminate]. intros H; inversion H; subst. cbn in *. lia.
Qed.

Lemma parse_float_not_ok s v r : parse_float s <> POk v r.
Proof. unfold parse_float. destruct (float_like s); discriminate. Qed.

Lemma parse_null_len s v r : parse_null s = POk v r -> len r < len s.
Proof. unfold parse_null. destruct (alt_tags kw_parse_null s) eqn:E; [|discriminate]. intros H; inversion H; subst. eapply alt_tags_len; [apply kw_null_nonempty|exact E]. Qed.

Lemma parse_bool_len s v r : parse_bool s = POk v r -> len r < len s.
Proof.
  unfold parse_bool. destruct (alt_tags kw_bool_true s) eqn:E.
  - intros H; inversion H; subst. eapply alt_tags_len; [apply kw_true_nonempty|exact E].
  - destruct (alt_tags kw_bool_false s) eqn:E2; [|discriminate]. intros H; inversion H; subst. eapply alt_tags_len; [apply kw_false_nonempty|exact E2].
Qed.

Lemma palt_not_oof {A} (x y : pres A) : x <> POof -> y <> POof -> palt x y <> POof.
Proof. destruct x; cbn; auto. Qed.

Lemma pmap_oof {A B} (f : A -> B) x : pmap f x = POof -> x = POof.
Proof. destruct x; cbn; congruence. Qed.

Section WithRegex.
Variable rv : string -> bool.

Lemma parse_regex_len s v r : parse_regex rv s = POk v r -> len r < len s.
Proof.
  unfold parse_regex. destruct (expect "/" s) as [s1|] eqn:E; [|discriminate]. apply expect_len in E.
  destruct (read_regex s1 EmptyString EmptyString) as [re r0| | | |] eqn:E1; try discriminate.
  apply read_regex_len in E1. destruct (rv re); [|discriminate].
  destruct (expect "/" r0) as [r'|] eqn:E2; [|discriminate]. apply expect_len in E2. intros H; inversion H; subst. lia.
Qed.

Lemma pmap_ok {A B} (f : A -> B) x b r : pmap f x = POk b r -> exists a, x = POk a r /\ b = f a.
Proof. destruct x; cbn; intros H; try discriminate. inversion H; subst. eauto. Qed.

Lemma parse_scalar_len s v r : parse_scalar rv s = POk v r -> len r < len s.
Proof.
  unfold parse_scalar. intros H.
  apply palt_ok in H as [H|[_ H]]; [apply pmap_ok in H as (a & H & _); eapply parse_string_r_len; exact H|].
  apply palt_ok in H as [H|[_ H]]; [exfalso; eapply parse_float_not_ok; exact H|].
  apply palt_ok in H as [H|[_ H]]; [eapply parse_int_len; exact H|].
  apply palt_ok in H as [H|[_ H]]; [eapply parse_bool_len; exact H|eapply parse_regex_len; exact H].
Qed.

Lemma parse_char_len s v r : parse_char s = POk v r -> len r < len s.
Proof. destruct s as [|c s]; cbn; [discriminate|]. destruct (is_ascii c); [|discriminate]. intros H; inversion H; subst. cbn. lia. Qed.

Lemma span_snd_len p s : len (snd (span_while p s)) <= len s.
Proof. destruct (span_while p s) as [a b] eqn:E. apply span_while_len in E. cbn. lia. Qed.

Lemma range_value_len s v r : range_value s = POk v r -> len r < len s.
Proof.
  unfold range_value. pose proof (span_snd_len is_blank s) as H0. set (s1 := snd (span_while is_blank s)) in *.
  destruct (palt (parse_float s1) (palt (parse_int s1) (parse_char s1))) as [v0 r0| | | |] eqn:E; try discriminate.
  intros H; inversion H; subst. pose proof (span_snd_len is_blank r0).
  apply palt_ok in E as [E|[_ E]]; [exfalso; eapply parse_float_not_ok; exact E|].
  apply palt_ok in E as [E|[_ E]]; [apply parse_int_len in E|apply parse_char_len in E]; lia.
Qed.

Lemma parse_range_len s v r : parse_range s = POk v r -> len r < len s.
Proof.
  unfold parse_range. destruct s as [|c0 s]; [discriminate|].
  destruct c0 as [[] [] [] [] [] [] [] []]; try discriminate.
  destruct s as [|o s1]; [discriminate|].
  destruct (Ascii.eqb o "(" || Ascii.eqb o "["); [|discriminate].
  destruct (range_value s1) as [a s2| | | |] eqn:E1; try discriminate. apply range_value_len in E1.
  destruct (expect "," s2) as [s3|] eqn:E2; [|discriminate]. apply expect_len in E2.
  destruct (range_value s3) as [b s4| | | |] eqn:E3; try discriminate. apply range_value_len in E3.
  destruct s4 as [|cl s5]; [discriminate|].
  destruct (Ascii.eqb cl ")" || Ascii.eqb cl "]"); [|discriminate].
  destruct a, b; try discriminate; intros H; inversion H; subst; cbn in *; lia.
Qed.

Lemma key_part_len s k r : key_part s = POk k r -> len r < len s.
Proof.
  unfold key_part. destruct s as [|c s]; [discriminate|]. destruct (negb (is_ascii c)); [discriminate|].
  destruct (span_while key_char (String c s)) as [k0 r0] eqn:E. apply span_while_len in E.
  destruct k0 as [|x k0].
  - apply parse_string_r_len.
  - destruct r0 as [|c' r0'].
    + intros H; inversion H; subst. cbn in *. lia.
    + destruct (negb (is_ascii c')); [discriminate|]. intros H; inversion H; subst. cbn in *. lia.
Qed.

(* ------------------------------------------------------------------ separated lists *)
Section SepFacts.
Context {A : Type}.
Variable sep : string -> option string.
Hypothesis sep_len : forall t t1, sep t = Some t1 -> len t1 < len t.

Lemma sep_loop_len (elem : string -> pres A) L :
  (forall t v r, len t < L -> elem t = POk v r -> len r <= len t) ->
  forall fuel acc s l r, len s <= L -> sep_loop sep elem fuel acc s = POk l r -> len r <= len s.
Proof.
  intros He. induction fuel as [|n IH]; intros acc s l r Hs H; cbn in H; [discriminate|].
  destruct (sep s) as [s1|] eqn:E; [|inversion H; subst; lia].
  apply sep_len in E. destruct (elem s1) as [v s2| | | |] eqn:E1; try discriminate.
  - apply He in E1; [|lia]. apply IH in H; lia.
  - inversion H; subst. lia.
Qed.

Lemma sep_list0_len (elem : string -> pres A) L :
  (forall t v r, len t < L -> elem t = POk v r -> len r <= len t) ->
  forall fuel s l r, len s < L -> sep_list0 sep elem fuel s = POk l r -> len r <= len s.
Proof.
  intros He fuel s l r Hs H. unfold sep_list0 in H. destruct (elem s) as [v s1| | | |] eqn:E; try discriminate.
  - apply He in E; [|lia]. eapply sep_loop_len in H; [lia|exact He|lia].
  - inversion H; subst. lia.
Qed.

Lemma sep_loop_nooof (elem : string -> pres A) L :
  (forall t v r, len t < L -> elem t = POk v r -> len r <= len t) ->
  (forall t, len t < L -> elem t <> POof) ->
  forall fuel acc s, len s < fuel -> len s <= L -> sep_loop sep elem fuel acc s <> POof.
Proof.
  intros He Hn. induction fuel as [|n IH]; intros acc s Hf Hs; [lia|]. cbn.
  destruct (sep s) as [s1|] eqn:E; [|discriminate].
  apply sep_len in E. destruct (elem s1) as [v s2| | | |] eqn:E1; try discriminate.
  - apply He in E1; [|lia]. apply IH; lia.
  - exfalso. eapply Hn; [|exact E1]. lia.
Qed.

Lemma sep_list0_nooof (elem : string -> pres A) L :
  (forall t v r, len t < L -> elem t = POk v r -> len r <= len t) ->
  (forall t, len t < L -> elem t <> POof) ->
  forall fuel s, len s < fuel -> len s < L -> sep_list0 sep elem fuel s <> POof.
Proof.
  intros He Hn fuel s Hf Hs. unfold sep_list0. destruct (elem s) as [v s1| | | |] eqn:E; try discriminate.
  - apply He in E; [|lia]. eapply sep_loop_nooof; eauto; lia.
  - exfalso. eapply Hn; [|exact E]. lia.
Qed.

(* more fuel, and an element parser that answers the same wherever the first one answers: the same list *)
Lemma sep_loop_mono (e1 e2 : string -> pres A) :
  (forall t x, e1 t = x -> x <> POof -> e2 t = x) ->
  forall f1 f2 acc s x, f1 <= f2 -> sep_loop sep e1 f1 acc s = x -> x <> POof -> sep_loop sep e2 f2 acc s = x.
Proof.
  intros He. induction f1 as [|n IH]; intros f2 acc s x Hf H Hx; cbn in H; [congruence|].
  destruct f2 as [|m]; [lia|]. cbn. destruct (sep s) as [s1|]; [|exact H].
  destruct (e1 s1) as [v s2| | | |] eqn:E1.
  - rewrite (He s1 _ E1) by discriminate. apply IH; [lia|exact H|exact Hx].
  - rewrite (He s1 _ E1) by discriminate. exact H.
  - rewrite (He s1 _ E1) by discriminate. exact H.
  - rewrite (He s1 _ E1) by discriminate. exact H.
  - congruence.
Qed.

Lemma sep_list0_mono (e1 e2 : string -> pres A) :
  (forall t x, e1 t = x -> x <> POof -> e2 t = x) ->
  forall f1 f2 s x, f1 <= f2 -> sep_list0 sep e1 f1 s = x -> x <> POof -> sep_list0 sep e2 f2 s = x.
Proof.
  intros He f1 f2 s x Hf H Hx. unfold sep_list0 in *.
  destruct (e1 s) as [v s1| | | |] eqn:E1.
  - rewrite (He s _ E1) by discriminate. eapply sep_loop_mono; eauto.
  - rewrite (He s _ E1) by discriminate. exact H.
  - rewrite (He s _ E1) by discriminate. exact H.
  - rewrite (He s _ E1) by discriminate. exact H.
  - congruence.
Qed.
End SepFacts.

(* ------------------------------------------------------------------ parse_value consumes, and its fuel *)
(* the unfolded body: used to keep `cbn` from exposing the nested fixpoints *)
Lemma parse_value_S n s :
  parse_value rv (S n) s =
  let s0 := skip_ws_comments s in
  palt (parse_null s0) (palt (parse_scalar rv s0) (palt (parse_range s0)
    (palt
      (match ws_char "[" s0 with
       | None => PErr
       | Some s1 =>
           match sep_list0 (ws_char ",") (parse_value rv n) n s1 with
           | POk l s2 => match ws_char "]" s2 with Some s3 => POk (VList l) s3 | None => PErr end
           | other => pmap VList other
           end
       end)
      (match expect "{" s0 with
       | None => PErr
       | Some s1 =>
           match sep_list0 (ws_char ",")
                   (fun t => match key_part (skip_ws_comments t) with
                             | POk k t1 =>
                                 match ws_char ":" t1 with
                                 | Some t2 => pmap (fun v => (k, v)) (parse_value rv n t2)
                                 | None => PErr
                                 end
                             | other => pmap (fun k => (k, VNull)) other
                             end) n s1 with
           | POk l s2 =>
               match ws_char "}" s2 with
               | Some s3 => POk (VMap (fold_left (fun m kv => imap_insert (fst kv) (snd kv) m) l [])) s3
               | None => PErr
               end
           | other => pmap (fun _ => VNull) other
           end
       end)))).
Proof. reflexivity. Qed.

Definition key_value (n : nat) (t : string) : pres (string * lit) :=
  match key_part (skip_ws_comments t) with
  | POk k t1 =>
      match ws_char ":" t1 with
      | Some t2 => pmap (fun v => (k, v)) (parse_value rv n t2)
      | None => PErr
      end
  | other => pmap (fun k => (k, VNull)) other
  end.

Lemma key_value_len n L :
  (forall t v r, len t < L -> parse_value rv n t = POk v r -> len r < len t) ->
  forall t kv r, len t < S L -> key_value n t = POk kv r -> len r < len t.
Proof.
  intros IH t kv r Ht H. unfold key_value in H. pose proof (skip_len t false) as Hs. fold (skip_ws_comments t) in Hs.
  destruct (key_part (skip_ws_comments t)) as [k t1| | | |] eqn:E; try discriminate.
  apply key_part_len in E. destruct (ws_char ":" t1) as [t2|] eqn:E2; [|discriminate]. apply ws_char_len in E2.
  apply pmap_ok in H as (v & H & _). apply IH in H; lia.
Qed.

Lemma read_quoted_r_nooof q : forall s p acc, read_quoted_r q s p acc <> POof.
Proof.
  induction s as [|a s IHs]; intros p acc; cbn; [destruct p; discriminate|].
  destruct (Ascii.eqb a q); [destruct p; [apply IHs|discriminate]|]. destruct (Ascii.eqb a "\"); apply IHs.
Qed.

Lemma parse_string_r_nooof s : parse_string_r s <> POof.
Proof.
  unfold parse_string_r, parse_quoted_r. apply palt_not_oof.
  - destruct (expect "'" s); [apply read_quoted_r_nooof|discriminate].
  - destruct (expect """" s); [apply read_quoted_r_nooof|discriminate].
Qed.

Lemma key_part_nooof s : key_part s <> POof.
Proof.
  unfold key_part. destruct s as [|c u]; [discriminate|]. destruct (negb (is_ascii c)); [discriminate|].
  destruct (span_while key_char (String c u)) as [[|x k0] r0]; [apply parse_string_r_nooof|].
  destruct r0 as [|c' r0']; [discriminate|]. destruct (negb (is_ascii c')); discriminate.
Qed.

Lemma key_value_nooof n L :
  (forall t, len t < L -> parse_value rv n t <> POof) ->
  forall t, len t < S L -> key_value n t <> POof.
Proof.
  intros IH t Ht. unfold key_value. pose proof (skip_len t false) as Hs. fold (skip_ws_comments t) in Hs.
  destruct (key_part (skip_ws_comments t)) as [k t1| | | |] eqn:E; cbn [pmap]; try discriminate.
  - apply key_part_len in E. destruct (ws_char ":" t1) as [t2|] eqn:E2; [|discriminate]. apply ws_char_len in E2.
    intros H. apply pmap_oof in H. revert H. apply IH. lia.
  - exfalso. eapply key_part_nooof; exact E.
Qed.

Theorem parse_value_consumes : forall n s v r, parse_value rv n s = POk v r -> len r < len s.
Proof.
  induction n as [|n IH]; intros s v r H; [discriminate|].
  rewrite parse_value_S in H. cbv zeta in H.
  pose proof (skip_len s false) as Hs. fold (skip_ws_comments s) in Hs. set (s0 := skip_ws_comments s) in *.
  apply palt_ok in H as [H|[_ H]]; [apply parse_null_len in H; lia|].
  apply palt_ok in H as [H|[_ H]]; [apply parse_scalar_len in H; lia|].
  apply palt_ok in H as [H|[_ H]]; [apply parse_range_len in H; lia|].
  apply palt_ok in H as [H|[_ H]].
  - destruct (ws_char "[" s0) as [s1|] eqn:E; [|discriminate]. apply ws_char_len in E.
    destruct (sep_list0 (ws_char ",") (parse_value rv n) n s1) as [l s2| | | |] eqn:E1; try discriminate.
    destruct (ws_char "]" s2) as [s3|] eqn:E2; [|discriminate]. apply ws_char_len in E2. inversion H; subst.
    eapply (sep_list0_len (ws_char ",") (ws_char_len ",") _ (S (len s1))) in E1; [lia| |lia].
    intros t v0 r0 _ Ht. apply IH in Ht. lia.
  - destruct (expect "{" s0) as [s1|] eqn:E; [|discriminate]. apply expect_len in E.
    fold (key_value n) in H.
    destruct (sep_list0 (ws_char ",") (key_value n) n s1) as [l s2| | | |] eqn:E1; try discriminate.
    destruct (ws_char "}" s2) as [s3|] eqn:E2; [|discriminate]. apply ws_char_len in E2. inversion H; subst.
    eapply (sep_list0_len (ws_char ",") (ws_char_len ",") _ (S (len s1))) in E1; [lia| |lia].
    intros t v0 r0 Ht Hk. eapply (key_value_len n (S (len s1))) in Hk; [lia| |lia].
    intros t' v' r' _ Hp. apply IH in Hp. exact Hp.
Qed.

Lemma read_regex_nooof : forall s acc seg, read_regex s acc seg <> POof.
Proof.
  induction s as [|c s IH]; intros acc seg; cbn; [discriminate|].
  destruct (Ascii.eqb c "/"); [|apply IH]. destruct seg; [discriminate|]. destruct (last_is_backslash _); [apply IH|discriminate].
Qed.

Lemma parse_int_nooof s : parse_int s <> POof.
Proof.
  unfold parse_int. destruct (span_while is_digit s) as [[|c d] r].
  - destruct (expect "-" s); [|discriminate]. destruct (span_while is_digit s0) as [[|c d] r1]; [discriminate|]. destruct (Z.leb _ _); discriminate.
  - destruct (Z.leb _ _); discriminate.
Qed.

Lemma parse_scalar_nooof s : parse_scalar rv s <> POof.
Proof.
  unfold parse_scalar. repeat apply palt_not_oof.
  - intros H. apply pmap_oof in H. revert H. apply parse_string_r_nooof.
  - unfold parse_float. destruct (float_like s); discriminate.
  - apply parse_int_nooof.
  - unfold parse_bool. destruct (alt_tags kw_bool_true s); [discriminate|]. destruct (alt_tags kw_bool_false s); discriminate.
  - unfold parse_regex. destruct (expect "/" s); [|discriminate].
    destruct (read_regex s0 EmptyString EmptyString) eqn:E; cbn; try discriminate.
    + destruct (rv a); [|discriminate]. destruct (expect "/" rest); discriminate.
    + exfalso. eapply read_regex_nooof; exact E.
Qed.

Lemma range_value_nooof s : range_value s <> POof.
Proof.
  unfold range_value. set (s1 := snd (span_while is_blank s)).
  assert (H : palt (parse_float s1) (palt (parse_int s1) (parse_char s1)) <> POof).
  { repeat apply palt_not_oof; [unfold parse_float; destruct (float_like s1); discriminate|apply parse_int_nooof|].
    destruct s1 as [|c r]; cbn; [discriminate|]. destruct (is_ascii c); discriminate. }
  destruct (palt _ _); try discriminate. congruence.
Qed.

Lemma parse_range_nooof s : parse_range s <> POof.
Proof.
  unfold parse_range. destruct s as [|c0 s]; [discriminate|].
  destruct c0 as [[] [] [] [] [] [] [] []]; try discriminate.
  destruct s as [|o s1]; [discriminate|]. destruct (Ascii.eqb o "(" || Ascii.eqb o "["); [|discriminate].
  destruct (range_value s1) eqn:E1; try discriminate; [|exfalso; eapply range_value_nooof; exact E1].
  destruct (expect "," rest); [|discriminate].
  destruct (range_value s) eqn:E2; try discriminate; [|exfalso; eapply range_value_nooof; exact E2].
  destruct rest0 as [|cl s5]; [discriminate|]. destruct (Ascii.eqb cl ")" || Ascii.eqb cl "]"); [|discriminate].
  destruct a, a0; discriminate.
Qed.

(* the fuel bounds nesting depth and list length only; both are below the length of the text *)
Theorem parse_value_enough_fuel : forall n s, len s < n -> parse_value rv n s <> POof.
Proof.
  induction n as [|n IH]; intros s Hn; [lia|].
  rewrite parse_value_S. cbv zeta.
  pose proof (skip_len s false) as Hs. fold (skip_ws_comments s) in Hs. set (s0 := skip_ws_comments s) in *.
  apply palt_not_oof; [unfold parse_null; destruct (alt_tags kw_parse_null s0); discriminate|].
  apply palt_not_oof; [apply parse_scalar_nooof|].
  apply palt_not_oof; [apply parse_range_nooof|].
  apply palt_not_oof.
  - destruct (ws_char "[" s0) as [s1|] eqn:E; [|discriminate]. apply ws_char_len in E.
    assert (Hl : sep_list0 (ws_char ",") (parse_value rv n) n s1 <> POof).
    { apply (sep_list0_nooof (ws_char ",") (ws_char_len ",") _ (S (len s1))); try lia.
      - intros t v r _ Ht. apply parse_value_consumes in Ht. lia.
      - intros t Ht. apply IH. lia. }
    destruct (sep_list0 _ _ n s1); try discriminate; [|congruence]. destruct (ws_char "]" rest); discriminate.
  - destruct (expect "{" s0) as [s1|] eqn:E; [|discriminate]. apply expect_len in E.
    fold (key_value n).
    assert (Hl : sep_list0 (ws_char ",") (key_value n) n s1 <> POof).
    { apply (sep_list0_nooof (ws_char ",") (ws_char_len ",") _ (S (len s1))); try lia.
      - intros t v r Ht Hk. eapply (key_value_len n (S (len s1))) in Hk; [lia| |lia].
        intros t' v' r' _ Hp. apply parse_value_consumes in Hp. exact Hp.
      - intros t Ht. apply (key_value_nooof n (len s1)); [|lia]. intros t' Ht'. apply IH. lia. }
    destruct (sep_list0 _ _ n s1); try discriminate; [|congruence]. destruct (ws_char "}" rest); discriminate.
Qed.

Corollary parse_value_top_answers s : parse_value_top rv s <> POof.
Proof. unfold parse_value_top, value_fuel. apply parse_value_enough_fuel. lia. Qed.

(* once the parser answers, more fuel gives the same answer *)
Theorem parse_value_fuel_mono : forall n m s x, n <= m -> parse_value rv n s = x -> x <> POof -> parse_value rv m s = x.
Proof.
  induction n as [|n IH]; intros m s x Hm H Hx; [cbn in H; congruence|].
  destruct m as [|m]; [lia|]. rewrite parse_value_S in *. cbv zeta in *.
  set (s0 := skip_ws_comments s) in *.
  assert (HL : forall s1 y, sep_list0 (ws_char ",") (parse_value rv n) n s1 = y -> y <> POof ->
                            sep_list0 (ws_char ",") (parse_value rv m) m s1 = y).
  { intros s1 y. apply sep_list0_mono; [|lia]. intros t z Ht Hz. eapply IH; [|exact Ht|exact Hz]. lia. }
  assert (HM : forall s1 y, sep_list0 (ws_char ",") (key_value n) n s1 = y -> y <> POof ->
                            sep_list0 (ws_char ",") (key_value m) m s1 = y).
  { intros s1 y. apply sep_list0_mono; [|lia]. intros t z Ht Hz. unfold key_value in *.
    destruct (key_part (skip_ws_comments t)) as [k t1| | | |]; try exact Ht.
    destruct (ws_char ":" t1) as [t2|]; [|exact Ht].
    assert (Hle : n <= m) by lia.
    destruct (parse_value rv n t2) eqn:Ep; cbn in Ht; subst z;
      try (rewrite (IH m t2 _ Hle Ep) by discriminate; reflexivity). congruence. }
  fold (key_value n) in H. fold (key_value m).
  destruct (parse_null s0); cbn [palt] in *; try exact H.
  destruct (parse_scalar rv s0); cbn [palt] in *; try exact H.
  destruct (parse_range s0); cbn [palt] in *; try exact H.
  destruct (ws_char "[" s0) as [s1|].
  - destruct (sep_list0 (ws_char ",") (parse_value rv n) n s1) as [l s2| | | |] eqn:El.
    + rewrite (HL s1 _ El) by discriminate. destruct (ws_char "]" s2); cbn [palt] in *; [exact H|].
      revert H. clear -HM Hx. intros H.
      destruct (expect "{" s0) as [s1'|]; [|exact H].
      destruct (sep_list0 (ws_char ",") (key_value n) n s1') eqn:Em;
        try (rewrite (HM s1' _ Em) by discriminate; exact H). cbn in H. congruence.
    + rewrite (HL s1 _ El) by discriminate. cbn [pmap palt] in *.
      destruct (expect "{" s0) as [s1'|]; [|exact H].
      destruct (sep_list0 (ws_char ",") (key_value n) n s1') eqn:Em;
        try (rewrite (HM s1' _ Em) by discriminate; exact H). cbn in H. congruence.
    + rewrite (HL s1 _ El) by discriminate. exact H.
    + rewrite (HL s1 _ El) by discriminate. exact H.
    + cbn in H. congruence.
  - cbn [palt] in *.
    destruct (expect "{" s0) as [s1'|]; [|exact H].
    destruct (sep_list0 (ws_char ",") (key_value n) n s1') eqn:Em;
      try (rewrite (HM s1' _ Em) by discriminate; exact H). cbn in H. congruence.
Qed.

(* the answer at the standard fuel is the answer at every larger fuel *)
Corollary parse_value_fuel_irrelevant s n : value_fuel s <= n -> parse_value rv n s = parse_value_top rv s.
Proof. intros Hn. eapply parse_value_fuel_mono; [exact Hn|reflexivity|apply parse_value_top_answers]. Qed.

End WithRegex.

(* ------------------------------------------------------------------ layout in front of a value *)
Lemma skip_layout w s : layout w -> skip_ws_comments (w +++ s) = skip_ws_comments s.
Proof.
  unfold skip_ws_comments. induction 1 as [|c w Hc Hw IH|body w Hb Hw IH].
  - reflexivity.
  - cbn. now rewrite Hc.
  - cbn [append skip]. assert (is_ws "#" = false) as -> by reflexivity. assert (is_hash "#" = true) as -> by reflexivity.
    rewrite sapp_assoc. cbn [append]. rewrite skip_comment_body by assumption. exact IH.
Qed.

Lemma skip_solid c r : is_ws c = false -> is_hash c = false -> skip_ws_comments (String c r) = String c r.
Proof. intros H1 H2. unfold skip_ws_comments. cbn. now rewrite H1, H2. Qed.

Lemma layout_app a b : layout a -> layout b -> layout (a +++ b).
Proof.
  induction 1 as [|c w Hc Hw IH|body w Hb Hw IH]; intros Hb'; cbn [append]; [assumption|constructor; auto|].
  rewrite sapp_assoc. cbn [append]. apply L_comment; auto.
Qed.

Theorem parse_value_layout rv n w s : layout w -> parse_value rv n (w +++ s) = parse_value rv n s.
Proof. intros Hw. destruct n; [reflexivity|]. rewrite !parse_value_S. cbv zeta. now rewrite skip_layout. Qed.

Corollary parse_value_layouts_interchangeable rv n w1 w2 s :
  layout w1 -> layout w2 -> parse_value rv n (w1 +++ s) = parse_value rv n (w2 +++ s).
Proof. intros. now rewrite !parse_value_layout. Qed.

Lemma ws_char_layout c w s : layout w -> ws_char c (w +++ s) = ws_char c s.
Proof. intros Hw. unfold ws_char. now rewrite skip_layout. Qed.
