#!/bin/sh
# usage: confirm_mutant.sh <worktree> <outdir>   — confirms a seeded change in its scratch worktree:
# demo passes on the clean tree, fails with the patch, and the pinned suite still has its 638 passes.
WT=$1; OUT=$2
cd "$WT" || exit 2
export CARGO_NET_OFFLINE=true
git checkout -q -- . 2>/dev/null
git apply --check "$OUT/patch.diff" || { echo "PATCH DOES NOT APPLY"; exit 1; }
cargo build --offline -j6 -p cfn-guard --bin cfn-guard >/dev/null 2>&1 || { echo "CLEAN BUILD FAILED"; exit 1; }
bash "$OUT/demo.sh" "$WT/target/debug/cfn-guard" >/dev/null 2>&1; A=$?
git apply "$OUT/patch.diff"
cargo build --offline -j6 -p cfn-guard --bin cfn-guard >/dev/null 2>&1 || { echo "PATCHED BUILD FAILED"; exit 1; }
bash "$OUT/demo.sh" "$WT/target/debug/cfn-guard" >/dev/null 2>&1; B=$?
T=$(cargo nextest run --workspace --no-fail-fast --offline --test-threads 6 2>&1 | grep -E "^\s*Summary" | tail -1)
git checkout -q -- .
echo "demo clean=$A patched=$B tests: $T"
[ "$A" = "0" ] && [ "$B" != "0" ] && echo "$T" | grep -q "638 passed" && echo CONFIRMED
