"""Correspondence of Model/QueryParse.v (the query grammar) with rules/parser.rs `access`: the hook `paccess` runs `access` on a text
and reports the query and the byte offset where it stopped, or the class of the nom error; the model parses the same bytes
inside Coq (vm_compute) and `access_obs` compares query, match_all, offset and error class.  Plus: spellings of one abstract
query (the statement of C14 on queries) must give one AST in the implementation."""
import json, random, re
from . import coqterm as ct
from . import impl, model
from .common import *

HEADER = 'From Coq Require Import String ZArith NArith List.\nFrom GV.Model Require Import Ast.\nFrom GV.Model Require Import QueryParse.\nImport ListNotations.\n'

LAYOUTS = ['', '', '', ' ', '  ', '\t', '\n', '\r\n', ' # c\n', '#\n', ' #x # y\n  ', '\n\n\t ']
NAMES = ['a', 'b', 'Resources', 'Properties', 'x1', 'a_b', 'Zz9', 'this', 'thisx', 'some', 'keys', 'when', 'or', 'in', 'not', 'null', 'true', 'A', 'é', 'aé', 'a-b', '_a', '9a', 'a__', 'THIS', 'SOME', 'somex']
KEYSTR = ['a', 'a b', '', 'x.y', "it's", 'q"r', 'é', '*', '0', 'a\\', '[', ']', '%v', 'this']
INTS = ['0', '1', '7', '007', '42', '-1', '-0', '-12', '2147483647', '2147483648', '-2147483648', '-2147483649', '4294967296', '4294967297', '9223372036854775807',
        '9223372036854775808', '-9223372036854775807', '-9223372036854775808', '99999999999999999999']
HEADS = ['a', 'Resources', 'this', 'THIS', 'This', '%v', '%var_1', '%', '%9', "'a b'", '"q"', "'open", '', ' a', 'a1', 'thisx', 'this_', 'é', '%é', '%vé', 'x-y', '*', '[0]', '.a', '1', '-1', 'some', 'somea']
TAILS = ['', ' ', ' == 1', ' exists', '\n', ' # c', '.', '[', ']', ' .a', '\n.a', ' [0]', '{', ' {', ' or', 'é', '-', '_', '1', '%', '.é', '.1e', '<<m>>', ' !empty', '!empty', ' in [1]']


def quote(s, rng):
    q = rng.choice('\'"')
    return q + s.replace(q, '\\' + q) + q


def gen_part_text(rng):
    lay = lambda: rng.choice(LAYOUTS)
    k = rng.random()
    if k < 0.18:
        return lay() + '.' + rng.choice(NAMES)
    if k < 0.28:
        return lay() + '.' + quote(rng.choice(KEYSTR), rng)
    if k < 0.38:
        return lay() + '.' + rng.choice(INTS)
    if k < 0.44:
        return lay() + '.*'
    if k < 0.5:
        return lay() + '.%' + rng.choice(NAMES)
    if k < 0.6:
        return lay() + '[' + lay() + '*' + lay() + ']'
    if k < 0.7:
        return lay() + '[' + rng.choice(['', '', ' ', '\n']) + rng.choice(INTS) + lay() + ']'
    if k < 0.78:
        return lay() + '[' + rng.choice(['', '', ' ']) + quote(rng.choice(KEYSTR), rng) + lay() + ']'
    if k < 0.86:
        return lay() + '[' + lay() + rng.choice(NAMES) + lay() + ']'
    if k < 0.9:
        return lay() + '[' + lay() + rng.choice(['keys == "a"', 'keys in ["a"]', 'KEYS == /x/', 'n | keys == "a"', 'a == 1', 'a exists', 'x | a == 1', 'this == 1', 'a == 1 or b == 2', '']) + lay() + ']'
    return lay() + rng.choice(['.', '..a', '[', ']', '[]', '[ ]', '.[0]', '[0', '[0 x]', '[*', '[*x]', "['a'", "['a' x]", '[a b]', '.-', '.+1', '.1.2', '[1.5]', '[%v]', '.%', '.**', "['a']]", '[[0]]'])


def gen_query_text(rng):
    t = ''
    if rng.random() < 0.2:
        t += rng.choice(LAYOUTS) + rng.choice(['some', 'SOME', 'Some', 'some', 'SOME']) + rng.choice([' ', '  ', '\n', ' # c\n', '', '\t'])
    t += rng.choice(['', '', '', ' ']) + rng.choice(HEADS)
    for _ in range(rng.choice([0, 1, 1, 2, 3, 4])):
        t += gen_part_text(rng)
    return t + rng.choice(TAILS)


def mutate(text, rng):
    if not text:
        return text
    b = list(text)
    k = rng.randrange(len(b))
    op = rng.random()
    alphabet = list('[]{}.*%"\'\\# \n-1ax_é')
    if op < 0.4:
        del b[k]
    elif op < 0.7:
        b.insert(k, rng.choice(alphabet))
    elif op < 0.85:
        b[k] = rng.choice(alphabet)
    else:
        b = b[:k]
    return ''.join(b)


def corpus(seed, n):
    rng = random.Random(seed * 6007 + 14)
    texts = []
    for h in HEADS:
        texts += [h, h + ' ', h + '.a', h + '[0]', h + '[*]', h + '.*', 'some ' + h, 'some ' + h + '.a', h + ' == 1', h + '\n.a']
    for nm in NAMES:
        texts += ['a.' + nm, 'a[' + nm + ']', 'a[ ' + nm + ' ]', 'a[' + nm + ' ]', 'a[ ' + nm + ']', '%' + nm, '%' + nm + '.x', 'a.%' + nm, nm, nm + '.b', 'a.' + nm + '.b', 'a[' + nm + '].b', 'a[' + nm + '|x == 1]']
    for i in INTS:
        texts += ['a.' + i, 'a[' + i + ']', 'a[ ' + i + ']', 'a[' + i + ' ]', 'a[' + i + '\n]', 'a[' + i + '#c\n]', 'a.' + i + '.b', 'a[' + i + '].b', 'a.' + i + 'x', 'a[' + i + 'x]', 'a[' + i, '%v.' + i, '%v[' + i + ']', 'this.' + i]
    for k in KEYSTR:
        for q in '\'"':
            qs = q + k.replace(q, '\\' + q) + q
            texts += ['a.' + qs, 'a[' + qs + ']', 'a[ ' + qs + ' ]', 'a[' + qs + ' ]', qs, qs + '.b', '%v.' + qs, 'a.' + qs + '[0]', 'a[' + qs, 'a.' + qs[:-1]]
    texts += ['%v', '%v.a', '%v[*]', '%v[*].a', '%v[0]', '%v[ * ]', '%v.*', '%v[x]', '%v[ x ]', "%v['k']", '%v .a', '%v\n[*]', '%v[ keys == "a" ]', '%v[ a == 1 ]',
              'a . b', 'a. b', 'a .b', 'a\n  .b\n  .c', 'a # c\n.b', 'a.b # c\n[0]', 'a [0]', 'a[ 0 ]', 'a[0 ]', 'a[ 0]', 'a[*]', 'a[ *]', 'a[* ]', 'a[\n*\n]', 'a[#c\n*]', 'a[*#c\n]',
              'some a', 'SOME a', 'somea', 'some  a', 'some\na', 'some#c\na', 'some # c\n a.b', ' some a', '\nsome a', 'some some', 'some this', 'some %v', 'Some a', 'some', 'some ', 'some .a',
              'this', 'this.a', 'THIS.a', 'this[0]', 'this[*]', 'this.*', ' this', '\n this.a', '#c\nthis.a', 'thisa', 'this_a', 'this.this', 'this .a', 'thiS.a',
              '', ' ', '.', '[', 'a.', 'a[', 'a.[', 'a[]', 'a[ ]', 'a..b', 'a.b.', 'a.*.*', 'a[*][*]', 'a.*[*].*', 'a' + '.b' * 60, 'a' + '[0]' * 60, 'a' + ' .b' * 30,
              'a.b.c == 1', 'a.b.c exists', 'a.b.c{', 'a.b.c {', 'a.b.c <<m>>', 'a.b.c!empty', 'a.b c', 'a.b-c', 'a.b_c', 'a.b1', 'a.1b', 'a.b.1.c', 'a.-1', 'a[-1]', 'a.-', 'a[-]']
    while len(texts) < n:
        t = gen_query_text(rng)
        texts.append(t)
        if rng.random() < 0.5:
            texts.append(mutate(t, rng))
    seen, out = set(), []
    for t in texts:
        if t not in seen:
            seen.add(t); out.append(t)
    return out


def has_filter(j):
    return any(p[0] in ('Filter', 'MapKeyFilter') for p in ct.L(j[1]))


def impl_term(res):
    if res[0] == 'Ok':
        if has_filter(res[1]):
            return 'IAOther'
        return '(IAOk %s %d%%N)' % (ct.access_query(res[1]), res[2])
    return {'Error': 'IAError', 'Failure': 'IAFailure'}.get(res[0], 'IAOther')


def run(texts, wd, tag='qparse'):
    """-> list of (text, verdict, impl result); verdict in PAAgree | PAAgreeReject | PANotModelled | PADisagree | crash"""
    res = impl.run_ops_parallel([{'op': 'paccess', 'text': t} for t in texts], wd, tag + '.pa')
    cases, out = [], [None] * len(texts)
    for i, (t, r) in enumerate(zip(texts, res)):
        if 'res' not in r:
            out[i] = (t, 'crash', r)
            continue
        try:
            it = impl_term(r['res'])
        except ct.TranslateError:
            it = 'IAOther'
        cases.append((i, '', 'access_obs %s %s' % (ct.cstr(t), it)))
        out[i] = (t, None, r['res'])
    verdicts, errors = model.eval_cases(cases, wd, tag, header=HEADER, per_file=200)
    if errors:
        raise ToolingError('model evaluation failed: %r' % (errors[:1],))
    for i, _, _ in cases:
        out[i] = (out[i][0], verdicts.get(i, 'NoModelOutput'), out[i][2])
    return out


# ------------------------------------------------------------------ spellings of one query (the statement of C14 on queries)
def gen_abstract(rng):
    head = rng.choice([('this',), ('var', rng.choice(['v', 'var_1', 'Zz'])), ('key', rng.choice(['a', 'Resources', 'x1', 'a b', "it's", 'q"r']))])
    parts = []
    for _ in range(rng.choice([0, 1, 2, 3, 4])):
        k = rng.random()
        if k < 0.3:
            parts.append(('key', rng.choice(['a', 'b', 'Properties', 'a b', 'x.y', "it's", 'q"r', '0', '*'])))
        elif k < 0.55:
            parts.append(('index', rng.choice([0, 1, 7, 42, -1, -12, 2147483647, -2147483648])))
        elif k < 0.7:
            parts.append(('allidx',))
        elif k < 0.8:
            parts.append(('allval',))
        elif k < 0.9:
            parts.append(('var', rng.choice(['k', 'name_2'])))
        else:
            parts.append(('capture', rng.choice(['n', 'idx'])))
    return (rng.random() < 0.25, head, parts)


def spell(q, rng, plain=False):
    lay = (lambda: '') if plain else (lambda: rng.choice(LAYOUTS))
    some, head, parts = q
    t = ''
    if some:
        t += lay() + ('some' if plain else rng.choice(['some', 'SOME'])) + (' ' if plain else rng.choice([' ', '  ', '\n', ' # c\n', '\t']))
    if head[0] == 'this':
        t += ('' if some else lay()) + ('this' if plain else rng.choice(['this', 'THIS']))
    elif head[0] == 'var':
        t += '%' + head[1]
    else:
        bare = re.fullmatch(r'[A-Za-z][A-Za-z0-9_]*', head[1]) and (plain or rng.random() < 0.6)
        t += head[1] if bare else quote(head[1], rng)
    for p in parts:
        if p[0] == 'key':
            bare = re.fullmatch(r'[A-Za-z][A-Za-z0-9_]*', p[1]) and (plain or rng.random() < 0.5)
            if bare:
                t += lay() + '.' + p[1]
            elif plain or rng.random() < 0.5:
                t += lay() + '.' + quote(p[1], rng)
            else:
                t += lay() + '[' + quote(p[1], rng) + lay() + ']'
        elif p[0] == 'index':
            z = '' if plain or rng.random() < 0.7 else rng.choice(['0', '00'])
            digits = ('-' if p[1] < 0 else '') + z + str(abs(p[1]))
            if plain or rng.random() < 0.5:
                t += lay() + '.' + digits
            else:
                t += lay() + '[' + digits + lay() + ']'
        elif p[0] == 'allidx':
            t += lay() + '[' + lay() + '*' + lay() + ']'
        elif p[0] == 'allval':
            t += lay() + '.*'
        elif p[0] == 'var':
            t += lay() + '.%' + p[1]
        else:
            t += lay() + '[' + p[1] + lay() + ']'
    return t


def spelling_groups(seed, n, per=6):
    rng = random.Random(seed * 4099 + 5)
    groups = []
    for _ in range(n):
        q = gen_abstract(rng)
        tail = rng.choice([' == 1', ' exists', '', ' {', '\n', ' <<m>>', ' !empty'])
        groups.append([spell(q, rng, plain=True) + tail] + [spell(q, rng) + tail for _ in range(per)])
    return groups


# ------------------------------------------------------------------ the operator grammar (value_cmp)
OP_HEADER = 'From Coq Require Import String ZArith NArith List.\nFrom GV.Model Require Import Ast.\nFrom GV.Model Require Import OpParse.\nImport ListNotations.\n'
OP_WORDS = ['in', 'IN', 'In', 'exists', 'EXISTS', 'Exists', 'empty', 'EMPTY', 'Empty', 'is_string', 'IS_STRING', 'is_list', 'IS_LIST', 'is_struct', 'IS_STRUCT',
            'is_bool', 'IS_BOOL', 'is_int', 'IS_INT', 'is_float', 'IS_FLOAT', 'is_null', 'IS_NULL', 'Is_Null', 'is_map', 'is_str', 'is', 'i', 'keys', 'KEYS', 'not', 'NOT', 'or']
OP_SYMBOLS = ['==', '!=', '>=', '<=', '>', '<', '<<', '<<m>>', '=', '=>', '=<', '!', '!==', '>>', '<>', '===', '!!=', '<<=', '< <', '> =', '!>', '!<', '~=', ':=', '']
OP_PREFIXES = ['', 'not ', 'NOT ', 'not\t', 'not  ', 'not \t ', 'not', 'NOT', '!', '! ', 'not\n', 'not\r\n', 'Not ', 'nOT ', '!!', 'not not ', 'not !', '!not ', 'NOT not ', ' ', ' not ', '\tnot ', '#c\nnot ']
OP_TAILS = ['', ' ', ' x', 'x', '_', '\n', ' 1', '1', '=', '!', ' <<m>>', '<<']


def op_corpus():
    texts = []
    for p in OP_PREFIXES:
        for w in OP_WORDS + OP_SYMBOLS:
            for t in OP_TAILS:
                texts.append(p + w + t)
    seen, out = set(), []
    for t in texts:
        if t not in seen:
            seen.add(t); out.append(t)
    return out


def run_ops_corpus(texts, wd, tag='oparse'):
    """-> list of (text, verdict, impl result); verdict in PCAgree | PCAgreeReject | PCDisagree | crash"""
    res = impl.run_ops_parallel([{'op': 'pcmp', 'text': t} for t in texts], wd, tag + '.pc')
    cases, out = [], [None] * len(texts)
    for i, (t, r) in enumerate(zip(texts, res)):
        if 'res' not in r:
            out[i] = (t, 'crash', r)
            continue
        rr = r['res']
        if rr[0] == 'Ok':
            it = '(ICOk O%s %s %d%%N)' % (rr[1][1], ct.cbool(rr[1][2]), rr[2])
        else:
            it = {'Error': 'ICError', 'Failure': 'ICFailure'}.get(rr[0], 'ICOther')
        cases.append((i, '', 'cmp_obs %s %s' % (ct.cstr(t), it)))
        out[i] = (t, None, rr)
    verdicts, errors = model.eval_cases(cases, wd, tag, header=OP_HEADER, per_file=400)
    if errors:
        raise ToolingError('model evaluation failed: %r' % (errors[:1],))
    for i, _, _ in cases:
        out[i] = (out[i][0], verdicts.get(i, 'NoModelOutput'), out[i][2])
    return out


def check_operators(ctx, tag):
    """the operator grammar: Model/OpParse.v against parser.rs value_cmp through the hook `pcmp` on the whole enumerated corpus (every
    keyword in right and wrong case and every symbol, behind every negation spelling and broken negation, with every tail)"""
    texts = op_corpus()
    if ctx.tier != 'thorough':
        texts = [t for i, t in enumerate(texts) if t.split(' ')[0] not in ('Not', 'nOT') or i % 3 == ctx.seed % 3]
    out = run_ops_corpus(texts, ctx.wd, tag)
    stats = {}
    for t, v, r in out:
        stats[v] = stats.get(v, 0) + 1
        if v in ('PCAgree', 'PCAgreeReject'):
            continue
        ctx.failing('operator text %r: value_cmp answers %s, the model of the operator grammar says otherwise (%s)' % (t[:60], json.dumps(r)[:160], v),
                    {'class': 'operator-grammar-correspondence', 'text': t, 'impl': r, 'verdict': v}, found=False)
    # the statement on the implementation alone: the three negations of one keyword operator give one (operator, negated) pair
    byop = {}
    for t, v, r in out:
        if r and isinstance(r, list) and r[0] == 'Ok':
            byop[t] = (r[1][1], r[1][2], t.encode('utf-8')[r[2]:].decode('utf-8', 'replace'))
    for w in ['in', 'IN', 'exists', 'EXISTS', 'empty', 'EMPTY', 'is_string', 'IS_STRING', 'is_list', 'IS_LIST', 'is_struct', 'IS_STRUCT', 'is_bool', 'IS_BOOL',
              'is_int', 'IS_INT', 'is_float', 'IS_FLOAT', 'is_null', 'IS_NULL']:
        for tail in (' x', ''):
            plain = byop.get(w + tail)
            forms = [byop.get(p + w + tail) for p in ('not ', 'NOT ', 'not\t', 'not  ', '!')]
            if plain is None or plain[1] is not False:
                ctx.failing('the operator keyword %r is not read as an un-negated operator: %r' % (w, plain), {'class': 'operator-spelling', 'text': w + tail}, found=True)
            elif any(f is None or f[0] != plain[0] or f[1] is not True or f[2] != plain[2] for f in forms):
                ctx.failing('negation spellings in front of %r are read differently: %r' % (w, forms), {'class': 'operator-spelling', 'text': w + tail, 'forms': forms}, found=True)
    ctx.coverage['operator_texts'] = len(texts)
    ctx.coverage['operator_verdicts'] = stats
    ctx.coverage['evaluations'] += len(texts)
    return stats.get('PCAgree', 0)


# ------------------------------------------------------------------ one access clause (single_clause)
CL_HEADER = ('From Coq Require Import String ZArith NArith List.\nFrom GV.Model Require Import Ast.\nFrom GV.Model Require Import ValueParse QueryParse OpParse ClauseParse.\n'
             'Import ListNotations.\n')


def pv_lit_term(j):
    """the literal of a clause (a PathAwareValue built from the parsed Value) as a ValueParse.lit term"""
    t = j[0]
    if t == 'PNull':
        return 'VNull'
    if t == 'PString':
        return '(VStr %s)' % ct.cstr(ct.S(j[2]))
    if t == 'PRegex':
        return '(VRegex %s)' % ct.cstr(ct.S(j[2]))
    if t == 'PBool':
        return '(VBool %s)' % ct.cbool(j[2])
    if t == 'PInt':
        return '(VInt (%d)%%Z)' % j[2]
    if t == 'PChar':
        if j[2]['C'] >= 128:
            raise ct.TranslateError('non-ASCII char')
        return '(VChar (Ascii.ascii_of_N %d%%N))' % j[2]['C']
    if t == 'PList':
        return '(VList %s)' % ct.clist([pv_lit_term(x) for x in ct.L(j[2])])
    if t == 'PMap':
        return '(VMap %s)' % ct.clist(['(%s, %s)' % (ct.cstr(ct.S(kv[1])), pv_lit_term(kv[2])) for kv in ct.L(j[2][2])])
    if t == 'PRangeInt':
        return '(VRangeInt (%d)%%Z (%d)%%Z %d%%N)' % (j[2], j[3], j[4])
    if t == 'PRangeChar':
        if j[2]['C'] >= 128 or j[3]['C'] >= 128:
            raise ct.TranslateError('non-ASCII char')
        return '(VRangeChar (Ascii.ascii_of_N %d%%N) (Ascii.ascii_of_N %d%%N) %d%%N)' % (j[2]['C'], j[3]['C'], j[4])
    raise ct.TranslateError('outside the model: %s' % t)


def impl_clause_term(res):
    if res[0] != 'Ok':
        return {'Error': 'ICLError', 'Failure': 'ICLFailure'}.get(res[0], 'ICLOther')
    ac = res[1][1]          # ['WClause', access_clause]
    aq, cmp_, w, custom, neg = ac[1], ac[2], ac[3], ac[4], ac[6]
    if has_filter(aq):
        return 'ICLOther'
    w = w['O'] if isinstance(w, dict) and 'O' in w else w
    if w is None:
        wt = 'IRNone'
    elif w[0] == 'LValue':
        try:
            wt = '(IRLit %s)' % pv_lit_term(w[1])
        except ct.TranslateError:
            wt = 'IROther'
    elif w[0] == 'LAccess':
        wt = 'IROther' if has_filter(w[1]) else '(IRQuery %s)' % ct.access_query(w[1])
    else:
        wt = 'IROther'
    return '(ICLOk %s %s O%s %s %s %s %d%%N)' % (ct.cbool(neg), ct.access_query(aq), cmp_[1], ct.cbool(cmp_[2]), wt, ct.ostr(custom), res[2])


CL_QUERIES = ['a', 'a.b', 'a[0]', 'a.*', 'a[*].b', '%v', '%v.x', 'this', 'this.a', "a.'k k'", 'some a[*]', 'SOME a.b', 'a [0]', 'a\n  .b', "a['k']", 'a[ keys == "x" ]', 'a[ b == 1 ]', 'notes', 'not', 'a.exists', 'a.in',
              'Resources.*.Properties.Tags[*].Key', 'é', 'a.é', '"q"', '', 'thisx', 'a.0', 'a[-1]']
CL_NOTS = ['', '', '', 'not ', 'NOT ', '!', 'not\t', 'not  ', '! ', 'not', 'not\n', 'Not ', 'not not ', '!!', ' not ', '#c\n not ']
CL_OPS_UN = ['exists', 'EXISTS', 'empty', '!empty', 'not empty', 'NOT EXISTS', '!exists', 'is_string', 'IS_LIST', 'not is_int', '!is_struct', 'is_null', 'is_float', 'is_bool', 'Exists', 'exist', 'isstring']
CL_OPS_BIN = ['==', '!=', '>', '>=', '<', '<=', 'in', 'IN', 'not in', 'NOT IN', '!in', 'not  in', '=', '=>', '!', 'In', 'not\nin']
CL_RHS = ['1', '-5', '"s"', "'s'", 'true', 'False', 'null', '/re/', '/a(/', 'r(1,5)', 'r[a,z]', '[1, 2]', '["a", \'b\']', '{a: 1}', '[1,', '"open', '1.5', '1e+5', 'b', 'b.c[0]', '%w', '%w.x', 'this.z', 'some b',
          'count(b)', 'to_lower(%w)', 'count (b)', 'regex_replace(a, "x", "y")', 'nullable', 'trueValue', 'r', 'rate', 'x y', '', '<<m>>', ']', 'é', 'b[ c == 1 ]', 'json_parse(b)', '[b, c]', '{a: b}']
CL_MSGS = ['', '', '', ' <<msg>>', '<<msg>>', ' << two words >>', '\n  <<a\nb>>', ' <<open', ' <<>>', ' << > >>', ' <<a>>>', ' << é >>', ' # c\n<<m>>', ' <m>', ' <<a>> <<b>>']
CL_TAILS = ['', '\n', ' or', ' x', '\n}', ' # end', ' <<late>>']


def gen_clause_text(rng):
    lay = lambda: rng.choice(LAYOUTS)
    sp = lambda: rng.choice([' ', ' ', ' ', '  ', '\t', '\n  ', ' # c\n ', ''])
    t = lay() + rng.choice(CL_NOTS) + (rng.choice(CL_QUERIES) if rng.random() < 0.7 else gen_query_text(rng))
    if rng.random() < 0.4:
        t += sp() + rng.choice(CL_OPS_UN)
    else:
        t += sp() + rng.choice(CL_OPS_BIN) + sp()
        r = rng.random()
        if r < 0.55:
            t += rng.choice(CL_RHS)
        elif r < 0.8:
            from . import vparse
            t += vparse.gen_value_text(rng, 1, broken=rng.choice([0.0, 0.0, 0.3]))
        else:
            t += gen_query_text(rng)
    t += rng.choice(CL_MSGS) + rng.choice(CL_TAILS)
    return t


def clause_corpus(seed, n):
    rng = random.Random(seed * 5003 + 14)
    texts = []
    for q in CL_QUERIES[:12]:
        for nt in ('', 'not ', '!', 'NOT '):
            for op in CL_OPS_UN[:8]:
                texts.append(nt + q + ' ' + op)
                texts.append(nt + q + ' ' + op + ' <<m>>')
            for op in CL_OPS_BIN[:11]:
                texts.append(nt + q + ' ' + op + ' 1')
                texts.append(nt + q + op + '"s" <<m>>')
    for rhs in CL_RHS:
        for op in ('==', 'in', 'not in', '>='):
            texts += ['a %s %s' % (op, rhs), 'a %s %s <<m>>' % (op, rhs), 'a %s%s' % (op, rhs), 'a %s\n  %s\n' % (op, rhs), 'not a %s # c\n %s' % (op, rhs)]
    for m in CL_MSGS:
        texts += ['a exists' + m, 'a == 1' + m, 'a == b' + m, 'a == "s"' + m, 'a == [1]' + m]
    while len(texts) < n:
        t = gen_clause_text(rng)
        texts.append(t)
        if rng.random() < 0.3:
            texts.append(mutate(t, rng))
    seen, out = set(), []
    for t in texts:
        if t not in seen:
            seen.add(t); out.append(t)
    return out


def run_clauses(texts, wd, tag='cparse'):
    """-> list of (text, verdict, impl result); verdict in PLAgree | PLAgreeReject | PLNotModelled | PLDisagree | crash"""
    from . import vparse
    res = impl.run_ops_parallel([{'op': 'pclause', 'text': t} for t in texts], wd, tag + '.pl')
    cands = sorted(set().union(*[vparse.regex_candidates(t) for t in texts])) if texts else []
    cand_txt = []
    for c in cands:
        try:
            cand_txt.append(c.decode('utf-8'))
        except UnicodeDecodeError:
            pass
    rres = impl.run_ops_parallel([{'op': 'regex', 're': c, 'text': ''} for c in cand_txt], wd, tag + '.re') if cand_txt else []
    valid = {}
    for c, r in zip(cand_txt, rres):
        rr = r.get('res')
        valid[c] = bool(rr) and rr[0] == 'Ok'
    cases, out = [], [None] * len(texts)
    for i, (t, r) in enumerate(zip(texts, res)):
        if 'res' not in r:
            out[i] = (t, 'crash', r)
            continue
        mine = [c for c in cand_txt if c.encode('utf-8') in vparse.regex_candidates(t)] if '/' in t else []
        table = ct.clist(['(%s, %s)' % (ct.cstr(c), ct.cbool(valid[c])) for c in mine])
        rv = '(fun s => match assoc s %s with Some b => b | None => false end)' % table
        try:
            it = impl_clause_term(r['res'])
        except (ct.TranslateError, KeyError, IndexError, TypeError):
            it = 'ICLOther'
        cases.append((i, '', 'clause_obs %s %s %s' % (rv, ct.cstr(t), it)))
        out[i] = (t, None, r['res'])
    verdicts, errors = model.eval_cases(cases, wd, tag, header=CL_HEADER, per_file=150)
    if errors:
        raise ToolingError('model evaluation failed: %r' % (errors[:1],))
    for i, _, _ in cases:
        out[i] = (out[i][0], verdicts.get(i, 'NoModelOutput'), out[i][2])
    return out


def check_clauses(ctx, tag, n):
    """one access clause: Model/ClauseParse.v against parser.rs single_clause through the hook `pclause` (negation flag, query, operator,
    right-hand side literal or query, custom message, stop offset, nom error class), and on the implementation alone: the spellings
    of a negation in front of one clause give one clause with the flag set"""
    texts = clause_corpus(ctx.seed, n)
    out = run_clauses(texts, ctx.wd, tag)
    stats = {}
    for t, v, r in out:
        stats[v] = stats.get(v, 0) + 1
        if v in ('PLAgree', 'PLAgreeReject', 'PLNotModelled'):
            continue
        ctx.failing('clause %r: single_clause answers %s, the model of the clause grammar says otherwise (%s)' % (t[:80], json.dumps(r)[:200], v),
                    {'class': 'clause-grammar-correspondence', 'text': t, 'impl': r, 'verdict': v}, found=False)
    bodies = ['a exists', 'a.b[0] == 1', 'a in [1, 2]', 'a !empty', '%v.x >= 2 <<m>>', 'a == b.c', "a.'k' is_string", 'some a[*] != "s"', 'this.a not in ["x"]', 'a not exists']
    forms = ['not ', 'NOT ', 'not\t', 'not   ', '!', '  not ', '\n!', '# c\nNOT ']
    ops = [{'op': 'pclause', 'text': f + b} for b in bodies for f in [''] + forms]
    res = impl.run_ops(ops, ctx.wd, tag + '.neg')
    k = 0
    def strip(rr):
        ac = json.loads(json.dumps(rr[1][1]))
        neg = ac[6]
        ac[5] = None; ac[6] = None
        return neg, json.dumps(ac, sort_keys=True)
    for b in bodies:
        base = res[k].get('res'); k += 1
        if not base or base[0] != 'Ok' or strip(base)[0] is not False:
            ctx.failing('the clause %r is not read as an un-negated clause: %s' % (b, json.dumps(base)[:160]), {'class': 'clause-negation', 'text': b}, found=True)
            k += len(forms)
            continue
        for f in forms:
            rr = res[k].get('res'); k += 1
            if not rr or rr[0] != 'Ok' or strip(rr)[0] is not True or strip(rr)[1] != strip(base)[1]:
                ctx.failing('%r in front of the clause %r: read as %s' % (f, b, json.dumps(rr)[:200]), {'class': 'clause-negation', 'text': f + b, 'plain': b}, found=True)
    ftexts = fclause_corpus(ctx.seed, max(500, n // 2))
    fout = run_fclauses(ftexts, ctx.wd, tag + 'f')
    fstats = {}
    for t, v, r in fout:
        fstats[v] = fstats.get(v, 0) + 1
        if v in ('PLAgree', 'PLAgreeReject', 'PLNotModelled'):
            continue
        ctx.failing('clause over queries with filters %r: single_clause answers %s, the model says otherwise (%s)' % (t[:80], json.dumps(r)[:200], v),
                    {'class': 'clause-with-filters-correspondence', 'text': t, 'impl': r, 'verdict': v}, found=False)
    ctx.coverage['clause_with_filters_texts'] = len(ftexts)
    ctx.coverage['clause_with_filters_verdicts'] = fstats
    ctx.coverage['evaluations'] += len(ftexts)
    ctx.coverage['clause_texts'] = len(texts)
    ctx.coverage['clause_verdicts'] = stats
    ctx.coverage['evaluations'] += len(texts) + len(ops)
    return stats.get('PLAgree', 0)


# ------------------------------------------------------------------ conditions: lines of or-joined clauses (single_clauses)
CN_HEADER = ('From Coq Require Import String ZArith NArith List.\nFrom GV.Model Require Import Ast.\nFrom GV.Model Require Import ValueParse QueryParse OpParse ClauseParse CnfParse.\n'
             'Import ListNotations.\n')


def impl_when_term(w):
    k = w[0]
    if k == 'WClause':
        ac = w[1]
        aq, cmp_, rhs, custom, neg = ac[1], ac[2], ac[3], ac[4], ac[6]
        if has_filter(aq):
            return 'IWOther'
        rhs = rhs['O'] if isinstance(rhs, dict) and 'O' in rhs else rhs
        if rhs is None:
            wt = 'IRNone'
        elif rhs[0] == 'LValue':
            try:
                wt = '(IRLit %s)' % pv_lit_term(rhs[1])
            except ct.TranslateError:
                wt = 'IROther'
        elif rhs[0] == 'LAccess':
            wt = 'IROther' if has_filter(rhs[1]) else '(IRQuery %s)' % ct.access_query(rhs[1])
        else:
            wt = 'IROther'
        return '(IWClause %s %s O%s %s %s %s)' % (ct.cbool(neg), ct.access_query(aq), cmp_[1], ct.cbool(cmp_[2]), wt, ct.ostr(custom))
    if k == 'WNamedRule':
        g = w[1]
        return '(IWNamed %s %s %s)' % (ct.cstr(ct.S(g[1])), ct.cbool(g[2]), ct.ostr(g[3]))
    return 'IWOther'


def impl_conds_term(res):
    if res[0] != 'Ok':
        return {'Error': 'ICNError', 'Failure': 'ICNFailure'}.get(res[0], 'ICNOther')
    lines = [ct.clist([impl_when_term(w) for w in ct.L(d)]) for d in ct.L(res[1])]
    return '(ICNOk %s %d%%N)' % (ct.clist(lines), res[2])


CN_ELEMS = ['a exists', 'a == 1', 'not a.b[0] in [1, 2]', '%v.x >= 2 <<m>>', 'a == b', "a.'k' is_string", 'some a[*] != "s"', 'myrule', 'not myrule', '!other_rule', 'NOT r2', 'r3 <<because>>', 'r3  <<two words>>',
            'r4 <m>', 'r5 == ', 'chk(a)', 'not chk(a, "x")', 'a empty', 'this !empty', 'a', 'not', 'or', 'orders exists', 'ORigin', 'a.b', 'x == [1,\n 2]', 'y == {k: 1}', 'rule_1#c', 'r6 {', 'r7{',
            'a == /re/', 'a exists <<open', 'r8 <<open', 'é', 'a[ b == 1 ] exists', 'a == count(b)']
CN_ORS = [' or ', ' OR ', ' |OR| ', '\n  or\n  ', ' or\n', '\nor ', ' or # c\n', ' # c\n or ', ' Or ', ' or', 'or ', ' | ', ' || ', ' |OR|', ' |or| ', '  OR\t', ' or or ']
CN_SEPS = ['\n', '\n\n', '\n  ', ' ', '  # c\n', '\n# c\n', ';', ',', '\r\n']
CN_TAILS = ['', '\n', ' {', '\n{', ' }', '\n}', ' # end', ' <<late>>', ' or', ' or\n']


def gen_conds_text(rng):
    lines = []
    for _ in range(rng.choice([1, 1, 2, 2, 3])):
        alts = [rng.choice(CN_ELEMS) if rng.random() < 0.8 else gen_clause_text(rng) for _ in range(rng.choice([1, 1, 2, 3]))]
        line = alts[0]
        for a in alts[1:]:
            line += rng.choice(CN_ORS) + a
        lines.append(line)
    t = rng.choice(LAYOUTS)
    for i, l in enumerate(lines):
        t += l + (rng.choice(CN_SEPS) if i + 1 < len(lines) else '')
    return t + rng.choice(CN_TAILS)


def conds_corpus(seed, n):
    rng = random.Random(seed * 4507 + 14)
    texts = []
    for e in CN_ELEMS:
        texts += [e, e + '\n', e + ' {', ' ' + e + ' or a exists', 'a exists or ' + e, e + '\n' + e, e + ' or ' + e + '\nmyrule']
    for o in CN_ORS:
        texts += ['a exists' + o + 'b exists', 'myrule' + o + 'other', 'myrule' + o + 'b == 1', 'a == 1' + o + 'myrule\nr2', 'a == "s"' + o + 'b == "t"' + o + 'c exists']
    for s_ in CN_SEPS:
        texts += ['a exists' + s_ + 'b exists', 'myrule' + s_ + 'other', 'myrule' + s_ + 'b == 1' + s_ + 'r3', 'a == 1' + s_ + 'myrule']
    texts += ['', ' ', '# c', '{', 'a ==', 'or', 'or a exists', 'a exists or', 'a exists or or b exists', 'a exists\nor b exists', 'a exists or\n\n\nb exists']
    while len(texts) < n:
        t = gen_conds_text(rng)
        texts.append(t)
        if rng.random() < 0.3:
            texts.append(mutate(t, rng))
    seen, out = set(), []
    for t in texts:
        if t not in seen:
            seen.add(t); out.append(t)
    return out


def run_conds(texts, wd, tag='cnparse'):
    from . import vparse
    res = impl.run_ops_parallel([{'op': 'pconds', 'text': t} for t in texts], wd, tag + '.pn')
    cands = sorted(set().union(*[vparse.regex_candidates(t) for t in texts])) if texts else []
    cand_txt = []
    for c in cands:
        try:
            cand_txt.append(c.decode('utf-8'))
        except UnicodeDecodeError:
            pass
    rres = impl.run_ops_parallel([{'op': 'regex', 're': c, 'text': ''} for c in cand_txt], wd, tag + '.re') if cand_txt else []
    valid = {}
    for c, r in zip(cand_txt, rres):
        rr = r.get('res')
        valid[c] = bool(rr) and rr[0] == 'Ok'
    cases, out = [], [None] * len(texts)
    for i, (t, r) in enumerate(zip(texts, res)):
        if 'res' not in r:
            out[i] = (t, 'crash', r)
            continue
        mine = [c for c in cand_txt if c.encode('utf-8') in vparse.regex_candidates(t)] if '/' in t else []
        table = ct.clist(['(%s, %s)' % (ct.cstr(c), ct.cbool(valid[c])) for c in mine])
        rv = '(fun s => match assoc s %s with Some b => b | None => false end)' % table
        try:
            it = impl_conds_term(r['res'])
        except (ct.TranslateError, KeyError, IndexError, TypeError):
            it = 'ICNOther'
        cases.append((i, '', 'conds_obs %s %s %s' % (rv, ct.cstr(t), it)))
        out[i] = (t, None, r['res'])
    verdicts, errors = model.eval_cases(cases, wd, tag, header=CN_HEADER, per_file=150)
    if errors:
        raise ToolingError('model evaluation failed: %r' % (errors[:1],))
    for i, _, _ in cases:
        out[i] = (out[i][0], verdicts.get(i, 'NoModelOutput'), out[i][2])
    return out


def check_conditions(ctx, tag, n):
    """lines of or-joined clauses: Model/CnfParse.v against parser.rs single_clauses (the conditions of a when) through the hook `pconds`;
    and on the implementation alone: or / OR / |OR| with different layouts around them give the same conjunction"""
    texts = conds_corpus(ctx.seed, n)
    out = run_conds(texts, ctx.wd, tag)
    stats = {}
    for t, v, r in out:
        stats[v] = stats.get(v, 0) + 1
        if v in ('PLAgree', 'PLAgreeReject', 'PLNotModelled'):
            continue
        ctx.failing('conditions %r: single_clauses answers %s, the model of the grammar says otherwise (%s)' % (t[:80], json.dumps(r)[:200], v),
                    {'class': 'conditions-grammar-correspondence', 'text': t, 'impl': r, 'verdict': v}, found=False)
    lines = [('a exists', 'b == 1'), ('myrule', 'other'), ('not r1', 'a.b[0] in [1, 2] <<m>>'), ('a == "s"', 'myrule'), ('%v.x >= 2', 'not a empty')]
    ors = [' or ', ' OR ', ' |OR| ', '\n  or\n  ', ' # c\n OR # d\n ', '  |OR|\t']
    ops = [{'op': 'pconds', 'text': a + o + b + '\nlast exists'} for a, b in lines for o in ors]
    res = impl.run_ops(ops, ctx.wd, tag + '.or')
    def strip(rr):
        j = json.loads(json.dumps(rr[1]))
        def go(x):
            if isinstance(x, list):
                if x and x[0] == 'Loc':
                    return None
                return [go(y) for y in x]
            if isinstance(x, dict):
                return {k_: go(v_) for k_, v_ in x.items()}
            return x
        return json.dumps(go(j), sort_keys=True)
    k = 0
    for a, b in lines:
        seen = None
        for o in ors:
            rr = res[k].get('res'); k += 1
            if not rr or rr[0] != 'Ok':
                ctx.failing('%r between %r and %r is not accepted: %s' % (o, a, b, json.dumps(rr)[:160]), {'class': 'or-spelling', 'text': a + o + b}, found=True)
                continue
            sv = re.sub(r'\["Loc"[^\]]*\]', 'null', json.dumps(rr[1]))
            if seen is None:
                seen = sv
            elif sv != seen:
                ctx.failing('the separator %r between %r and %r gives another conjunction than ` or `' % (o, a, b), {'class': 'or-spelling', 'text': a + o + b}, found=True)
    ftexts = fconds_corpus(ctx.seed, max(400, n // 2)) + texts[::3]
    fout = run_fconds(ftexts, ctx.wd, tag + 'f')
    fstats = {}
    for t, v, r in fout:
        fstats[v] = fstats.get(v, 0) + 1
        if v in ('PLAgree', 'PLAgreeReject', 'PLNotModelled'):
            continue
        ctx.failing('conditions over filtered queries %r: single_clauses answers %s, the model says otherwise (%s)' % (t[:80], json.dumps(r)[:200], v),
                    {'class': 'conditions-with-filters-correspondence', 'text': t, 'impl': r, 'verdict': v}, found=False)
    ctx.coverage['conditions_with_filters_texts'] = len(ftexts)
    ctx.coverage['conditions_with_filters_verdicts'] = fstats
    ctx.coverage['evaluations'] += len(ftexts)
    ctx.coverage['conditions_texts'] = len(texts)
    ctx.coverage['conditions_verdicts'] = stats
    ctx.coverage['evaluations'] += len(texts) + len(ops)
    return stats.get('PLAgree', 0)


# ------------------------------------------------------------------ queries with filters, one level deep (FilterParse.access_f)
FL_HEADER = ('From Coq Require Import String ZArith NArith List.\nFrom GV.Model Require Import Ast.\nFrom GV.Model Require Import ValueParse QueryParse OpParse ClauseParse CnfParse FilterParse.\n'
             'Import ListNotations.\n')


def guard_clause_as_when(g):
    """a clause inside a filter (GuardClause) as an impl_when term: only plain access clauses are in the model"""
    if g[0] == 'GClause':
        return impl_when_term(['WClause', g[1]])
    return 'IWOther'


def impl_fpart_term(p):
    t = p[0]
    if t == 'Filter':
        name = ct.ostr(p[1])
        lines = [ct.clist([guard_clause_as_when(g) for g in ct.L(d)]) for d in ct.L(p[2])]
        return '(IFFilter %s %s)' % (name, ct.clist(lines))
    if t == 'MapKeyFilter':
        name, cmp_, w = ct.ostr(p[1]), p[2], p[3]
        if w[0] == 'LValue':
            try:
                wt = '(IRLit %s)' % pv_lit_term(w[1])
            except ct.TranslateError:
                wt = 'IROther'
        elif w[0] == 'LAccess':
            wt = 'IROther' if has_filter(w[1]) else '(IRQuery %s)' % ct.access_query(w[1])
        else:
            wt = 'IROther'
        return '(IFKeys %s O%s %s %s)' % (name, cmp_[1], ct.cbool(cmp_[2]), wt)
    return '(IFP %s)' % ct.query_part(p)


def impl_fquery_term(res):
    if res[0] != 'Ok':
        return {'Error': 'IFQError', 'Failure': 'IFQFailure'}.get(res[0], 'IFQOther')
    aq = res[1]
    parts = []
    for p in ct.L(aq[1]):
        try:
            parts.append(impl_fpart_term(p))
        except (ct.TranslateError, KeyError, IndexError, TypeError):
            parts.append('IFOther')
    return '(IFQOk %s %s %d%%N)' % (ct.clist(parts), ct.cbool(aq[2]), res[2])


FL_FILTERS = ['[ b == 1 ]', "[ Type == 'T' ]", '[ k | Type == "T" ]', '[ name| a exists ]', '[ a exists\n  b == 2 ]', '[ a == 1 or b == 2 ]', '[ a == 1 OR\n b in [1,2] or c !empty ]', '[ not a exists ]',
              '[ a == %v ]', '[ a.b[0] == c.d ]', '[ keys == "x" ]', '[ KEYS == /re/ ]', '[ keys in ["a", "b"] ]', '[ keys not in ["a"] ]', '[ keys != "x" ]', '[ k | keys == "x" ]', '[ keys == %v ]',
              '[ keys == a.b ]', '[ keys !in ["a"] ]', '[ keys exists ]', '[ keys ]', '[ keys == ]', '[ keys == "x" y ]', '[ a == 1', '[ a == 1 }', '[ a == ]', '[ ]', '[ | a == 1 ]', '[ k | ]', '[ k || a == 1 ]',
              '[ when a exists { b exists } ]', '[ a { b exists } ]', '[ a !empty { b exists } ]', '[ a !empty ]', '[ a not empty ]', '[ chk(a) ]', '[ not chk(a) ]', '[ myrule ]', '[ a exists <<m>> ]',
              '[ a[ b == 1 ] exists ]', '[ a == 1 ][ b == 2 ]', '[ a == 1 ].c[ d == 2 ]', '[ this == 1 ]', '[ this.a == "x" # c\n ]', '[#c\n a == 1 ]', '[ a == 1 # c\n]', '[ whenever exists ]', '[ x|y == 1 ]',
              '[ k|keys == "a" ]', '[ a == count(b) ]', '[ a <= 1.5 ]', '[ é == 1 ]']


def filter_corpus(seed, n):
    rng = random.Random(seed * 3001 + 14)
    texts = []
    for f in FL_FILTERS:
        texts += ['a' + f, 'a.b' + f + '.c', 'a.*' + f, 'a[*]' + f + ' exists', '%v' + f, '%v' + f + '.x', 'this' + f, 'some a' + f + '.c == 1', 'a ' + f, 'a\n  ' + f + '\n  .c', 'a["k"]' + f, 'a' + f + '[0]']
    while len(texts) < n:
        t = rng.choice(['a', 'a.b', 'Resources.*', '%v', '%v.x', 'this', 'some a', 'a[*]', 'a.0'])
        for _ in range(rng.choice([1, 1, 2, 3])):
            r = rng.random()
            if r < 0.55:
                t += rng.choice(['', '', ' ', '\n ']) + rng.choice(FL_FILTERS)
            elif r < 0.75:
                body = rng.choice(LAYOUTS) + (rng.choice(['k |', 'k|', ' n  | ', '']) if rng.random() < 0.3 else '')
                lines = []
                for _l in range(rng.choice([1, 1, 2])):
                    alts = [gen_clause_text(rng) if rng.random() < 0.5 else rng.choice(CN_ELEMS) for _a in range(rng.choice([1, 1, 2]))]
                    lines.append(rng.choice(CN_ORS[:8]).join(alts))
                t += '[' + body + rng.choice(CN_SEPS[:5]).join(lines) + rng.choice(LAYOUTS) + rng.choice([']', ']', ']', '', '}'])
            else:
                t += gen_part_text(rng)
        t += rng.choice(TAILS)
        texts.append(t)
        if rng.random() < 0.25:
            texts.append(mutate(t, rng))
    seen, out = set(), []
    for t in texts:
        if t not in seen:
            seen.add(t); out.append(t)
    return out


def run_filters(texts, wd, tag='flparse'):
    from . import vparse
    res = impl.run_ops_parallel([{'op': 'paccess', 'text': t} for t in texts], wd, tag + '.pf')
    cands = sorted(set().union(*[vparse.regex_candidates(t) for t in texts])) if texts else []
    cand_txt = []
    for c in cands:
        try:
            cand_txt.append(c.decode('utf-8'))
        except UnicodeDecodeError:
            pass
    rres = impl.run_ops_parallel([{'op': 'regex', 're': c, 'text': ''} for c in cand_txt], wd, tag + '.re') if cand_txt else []
    valid = {}
    for c, r in zip(cand_txt, rres):
        rr = r.get('res')
        valid[c] = bool(rr) and rr[0] == 'Ok'
    cases, out = [], [None] * len(texts)
    for i, (t, r) in enumerate(zip(texts, res)):
        if 'res' not in r:
            out[i] = (t, 'crash', r)
            continue
        mine = [c for c in cand_txt if c.encode('utf-8') in vparse.regex_candidates(t)] if '/' in t else []
        table = ct.clist(['(%s, %s)' % (ct.cstr(c), ct.cbool(valid[c])) for c in mine])
        rv = '(fun s => match assoc s %s with Some b => b | None => false end)' % table
        try:
            it = impl_fquery_term(r['res'])
        except (ct.TranslateError, KeyError, IndexError, TypeError):
            it = 'IFQOther'
        cases.append((i, '', 'access_f_obs %s %s %s' % (rv, ct.cstr(t), it)))
        out[i] = (t, None, r['res'])
    verdicts, errors = model.eval_cases(cases, wd, tag, header=FL_HEADER, per_file=150)
    if errors:
        raise ToolingError('model evaluation failed: %r' % (errors[:1],))
    for i, _, _ in cases:
        out[i] = (out[i][0], verdicts.get(i, 'NoModelOutput'), out[i][2])
    return out


# ------------------------------------------------------------------ access clauses over queries with filters (ClauseFParse.clause_f)
CF_HEADER = ('From Coq Require Import String ZArith NArith List.\nFrom GV.Model Require Import Ast.\nFrom GV.Model Require Import ValueParse QueryParse OpParse ClauseParse CnfParse FilterParse ClauseFParse.\n'
             'Import ListNotations.\n')


def fparts_term(aq):
    parts = []
    for p in ct.L(aq[1]):
        try:
            parts.append(impl_fpart_term(p))
        except (ct.TranslateError, KeyError, IndexError, TypeError):
            parts.append('IFOther')
    return ct.clist(parts), ct.cbool(aq[2])


def impl_fclause_term(res):
    if res[0] != 'Ok':
        return {'Error': 'IFCError', 'Failure': 'IFCFailure'}.get(res[0], 'IFCOther')
    ac = res[1][1]
    aq, cmp_, w, custom, neg = ac[1], ac[2], ac[3], ac[4], ac[6]
    w = w['O'] if isinstance(w, dict) and 'O' in w else w
    if w is None:
        wt = 'IFRNone'
    elif w[0] == 'LValue':
        try:
            wt = '(IFRLit %s)' % pv_lit_term(w[1])
        except ct.TranslateError:
            wt = 'IFROther'
    elif w[0] == 'LAccess':
        wt = '(IFRQuery %s %s)' % fparts_term(w[1])
    else:
        wt = 'IFROther'
    parts, all_ = fparts_term(aq)
    return '(IFCOk %s %s %s O%s %s %s %s %d%%N)' % (ct.cbool(neg), parts, all_, cmp_[1], ct.cbool(cmp_[2]), wt, ct.ostr(custom), res[2])


def fclause_corpus(seed, n):
    rng = random.Random(seed * 2503 + 14)
    texts = []
    lhs = ['a' + f for f in FL_FILTERS[:24]] + ["Resources.*[ Type == 'T' ].Properties.Size", '%v[ k | a exists ].b', 'this[ x == 1 ]', 'some a[ b == 1 ].c', "a[ keys == 'k' ].v"]
    rhs = ['1', '"s"', '[1, 2]', '%w', "%w[ t == 'x' ].y", 'b[ c == 1 ]', 'b[ keys == /x/ ]', 'b.c', 'null', 'count(b[ c == 1 ])', '']
    for l in lhs:
        for nt in ('', 'not ', '!'):
            texts += [nt + l + ' exists', nt + l + ' !empty <<m>>', nt + l + ' == 1', nt + l + ' in [1, "a"] <<m>>']
        for r in rhs:
            texts += [l + ' == ' + r, l + ' in ' + r + ' <<m>>', 'x != ' + r]
    while len(texts) < n:
        t = rng.choice(LAYOUTS) + rng.choice(CL_NOTS)
        t += rng.choice(lhs) if rng.random() < 0.6 else filter_corpus.__globals__['gen_query_text'](rng)
        if rng.random() < 0.35:
            t += ' ' + rng.choice(CL_OPS_UN)
        else:
            t += ' ' + rng.choice(CL_OPS_BIN) + ' ' + (rng.choice(rhs) if rng.random() < 0.6 else rng.choice(CL_RHS))
        t += rng.choice(CL_MSGS) + rng.choice(CL_TAILS)
        texts.append(t)
        if rng.random() < 0.25:
            texts.append(mutate(t, rng))
    seen, out = set(), []
    for t in texts:
        if t not in seen:
            seen.add(t); out.append(t)
    return out


def run_fclauses(texts, wd, tag='cfparse'):
    from . import vparse
    res = impl.run_ops_parallel([{'op': 'pclause', 'text': t} for t in texts], wd, tag + '.pf')
    cands = sorted(set().union(*[vparse.regex_candidates(t) for t in texts])) if texts else []
    cand_txt = []
    for c in cands:
        try:
            cand_txt.append(c.decode('utf-8'))
        except UnicodeDecodeError:
            pass
    rres = impl.run_ops_parallel([{'op': 'regex', 're': c, 'text': ''} for c in cand_txt], wd, tag + '.re') if cand_txt else []
    valid = {}
    for c, r in zip(cand_txt, rres):
        rr = r.get('res')
        valid[c] = bool(rr) and rr[0] == 'Ok'
    cases, out = [], [None] * len(texts)
    for i, (t, r) in enumerate(zip(texts, res)):
        if 'res' not in r:
            out[i] = (t, 'crash', r)
            continue
        mine = [c for c in cand_txt if c.encode('utf-8') in vparse.regex_candidates(t)] if '/' in t else []
        table = ct.clist(['(%s, %s)' % (ct.cstr(c), ct.cbool(valid[c])) for c in mine])
        rv = '(fun s => match assoc s %s with Some b => b | None => false end)' % table
        try:
            it = impl_fclause_term(r['res'])
        except (ct.TranslateError, KeyError, IndexError, TypeError):
            it = 'IFCOther'
        cases.append((i, '', 'clause_f_obs %s %s %s' % (rv, ct.cstr(t), it)))
        out[i] = (t, None, r['res'])
    verdicts, errors = model.eval_cases(cases, wd, tag, header=CF_HEADER, per_file=120)
    if errors:
        raise ToolingError('model evaluation failed: %r' % (errors[:1],))
    for i, _, _ in cases:
        out[i] = (out[i][0], verdicts.get(i, 'NoModelOutput'), out[i][2])
    return out


# ------------------------------------------------------------------ conditions over clauses with filtered queries (CnfFParse.single_clauses_f)
CNF_HEADER = ('From Coq Require Import String ZArith NArith List.\nFrom GV.Model Require Import Ast.\nFrom GV.Model Require Import ValueParse QueryParse OpParse ClauseParse CnfParse FilterParse ClauseFParse CnfFParse.\n'
              'Import ListNotations.\n')


def impl_fwhen_term(w):
    k = w[0]
    if k == 'WClause':
        ac = w[1]
        aq, cmp_, rhs, custom, neg = ac[1], ac[2], ac[3], ac[4], ac[6]
        rhs = rhs['O'] if isinstance(rhs, dict) and 'O' in rhs else rhs
        if rhs is None:
            wt = 'IFRNone'
        elif rhs[0] == 'LValue':
            try:
                wt = '(IFRLit %s)' % pv_lit_term(rhs[1])
            except ct.TranslateError:
                wt = 'IFROther'
        elif rhs[0] == 'LAccess':
            wt = '(IFRQuery %s %s)' % fparts_term(rhs[1])
        else:
            wt = 'IFROther'
        parts, all_ = fparts_term(aq)
        return '(IFWClause %s %s %s O%s %s %s %s)' % (ct.cbool(neg), parts, all_, cmp_[1], ct.cbool(cmp_[2]), wt, ct.ostr(custom))
    if k == 'WNamedRule':
        g = w[1]
        return '(IFWNamed %s %s %s)' % (ct.cstr(ct.S(g[1])), ct.cbool(g[2]), ct.ostr(g[3]))
    return 'IFWOther'


def impl_fconds_term(res):
    if res[0] != 'Ok':
        return {'Error': 'IFCNError', 'Failure': 'IFCNFailure'}.get(res[0], 'IFCNOther')
    lines = [ct.clist([impl_fwhen_term(w) for w in ct.L(d)]) for d in ct.L(res[1])]
    return '(IFCNOk %s %d%%N)' % (ct.clist(lines), res[2])


def fconds_corpus(seed, n):
    rng = random.Random(seed * 2003 + 14)
    felems = ["Resources.*[ Type == 'T' ] !empty", "a[ b == 1 ].c == 2", '%v[ k | x exists ].y in [1, 2] <<m>>', "a[ keys == 'k' ] exists", 'not a[ b == 1 or c == 2 ] empty', "x == y[ z == 1 ]",
              "a[ b == 1 ][ c == 2 ] exists", "a[ b[ c == 1 ] exists ] exists", 'a[ b == 1', 'a[ when b exists { c exists } ] exists']
    texts = []
    for e in felems:
        texts += [e, e + '\nmyrule', 'myrule or ' + e, e + ' or ' + e, e + '\n' + e + ' {', 'not r1\n' + e + '\n}']
    while len(texts) < n:
        lines = []
        for _ in range(rng.choice([1, 2, 2, 3])):
            alts = [rng.choice(felems) if rng.random() < 0.5 else rng.choice(CN_ELEMS) for _a in range(rng.choice([1, 1, 2, 3]))]
            line = alts[0]
            for a in alts[1:]:
                line += rng.choice(CN_ORS[:10]) + a
            lines.append(line)
        t = rng.choice(LAYOUTS) + rng.choice(CN_SEPS[:6]).join(lines) + rng.choice(CN_TAILS)
        texts.append(t)
        if rng.random() < 0.25:
            texts.append(mutate(t, rng))
    seen, out = set(), []
    for t in texts:
        if t not in seen:
            seen.add(t); out.append(t)
    return out


def run_fconds(texts, wd, tag='cnfparse'):
    from . import vparse
    res = impl.run_ops_parallel([{'op': 'pconds', 'text': t} for t in texts], wd, tag + '.pn')
    cands = sorted(set().union(*[vparse.regex_candidates(t) for t in texts])) if texts else []
    cand_txt = []
    for c in cands:
        try:
            cand_txt.append(c.decode('utf-8'))
        except UnicodeDecodeError:
            pass
    rres = impl.run_ops_parallel([{'op': 'regex', 're': c, 'text': ''} for c in cand_txt], wd, tag + '.re') if cand_txt else []
    valid = {}
    for c, r in zip(cand_txt, rres):
        rr = r.get('res')
        valid[c] = bool(rr) and rr[0] == 'Ok'
    cases, out = [], [None] * len(texts)
    for i, (t, r) in enumerate(zip(texts, res)):
        if 'res' not in r:
            out[i] = (t, 'crash', r)
            continue
        mine = [c for c in cand_txt if c.encode('utf-8') in vparse.regex_candidates(t)] if '/' in t else []
        table = ct.clist(['(%s, %s)' % (ct.cstr(c), ct.cbool(valid[c])) for c in mine])
        rv = '(fun s => match assoc s %s with Some b => b | None => false end)' % table
        try:
            it = impl_fconds_term(r['res'])
        except (ct.TranslateError, KeyError, IndexError, TypeError):
            it = 'IFCNOther'
        cases.append((i, '', 'conds_f_obs %s %s %s' % (rv, ct.cstr(t), it)))
        out[i] = (t, None, r['res'])
    verdicts, errors = model.eval_cases(cases, wd, tag, header=CNF_HEADER, per_file=100)
    if errors:
        raise ToolingError('model evaluation failed: %r' % (errors[:1],))
    for i, _, _ in cases:
        out[i] = (out[i][0], verdicts.get(i, 'NoModelOutput'), out[i][2])
    return out


# ------------------------------------------------------------------ assignments (LetParse.assignment)
LET_HEADER = ('From Coq Require Import String ZArith NArith List.\nFrom GV.Model Require Import Ast.\nFrom GV.Model Require Import ValueParse QueryParse OpParse ClauseParse CnfParse FilterParse ClauseFParse LetParse.\n'
              'Import ListNotations.\n')


def impl_let_term(res):
    if res[0] != 'Ok':
        return {'Error': 'ILError', 'Failure': 'ILFailure'}.get(res[0], 'ILOther')
    e = res[1]
    name, w = ct.S(e[1]), e[2]
    if w[0] == 'LValue':
        try:
            wt = '(IFRLit %s)' % pv_lit_term(w[1])
        except ct.TranslateError:
            wt = 'IFROther'
    elif w[0] == 'LAccess':
        wt = '(IFRQuery %s %s)' % fparts_term(w[1])
    else:
        wt = 'IFROther'
    return '(ILOk %s %s %d%%N)' % (ct.cstr(name), wt, res[2])


LET_HEADS = ['let', 'LET', 'Let', 'le', 'lets', 'let_', '']
LET_NAMES = ['x', 'buckets', 'a_1', 'X9', '_x', '9x', 'é', 'xé', 'let', 'when', '', 'a-b', 'a.b']
LET_EQS = ['=', ':=', ' = ', ' := ', '\n=\n', ' # c\n = ', '==', '=:', ':', ': =', '', ' =', '= ', ':=:=']
LET_VALUES = ['1', '"s"', "'s'", '[1, 2]', '{a: 1}', 'true', 'null', '/re/', 'r(1,5)', '1.5', 'a', 'a.b[0]', "Resources.*[ Type == 'T' ]", '%v', '%v.x', 'this.a', 'some a[*]', 'count(a)', 'to_lower(%v)', 'count (a)',
              'nullable', 'trueValue', 'rate', '[1,', '"open', '', '}', 'a[ b == 1 ].c', "a[ keys == 'k' ]", 'json_parse(a)', 'a or b', '%v[ k | x exists ]']
LET_TAILS = ['', '\n', '\nrule r {', ' # c', ' x', '\nlet y = 2']


def let_corpus(seed, n):
    rng = random.Random(seed * 1009 + 14)
    texts = []
    for v in LET_VALUES:
        for eq in LET_EQS[:6]:
            texts.append('let x' + eq + v)
            texts.append('let x' + eq + v + '\n')
    for h in LET_HEADS:
        for sp in (' ', '', '\n', ' # c\n ', '\t'):
            texts.append(h + sp + 'x = 1')
    for nm in LET_NAMES:
        texts += ['let ' + nm + ' = 1', 'let ' + nm + '= a.b', 'let ' + nm + ' := "s"']
    for eq in LET_EQS:
        texts += ['let x' + eq + '1', 'let x' + eq + 'a.b', 'let x ' + eq + ' [1]']
    while len(texts) < n:
        t = rng.choice(LET_HEADS[:3] + ['let'] * 6) + rng.choice([' ', ' ', '  ', '\n', ' # c\n', '']) + rng.choice(LET_NAMES) + rng.choice(LET_EQS)
        r = rng.random()
        if r < 0.5:
            t += rng.choice(LET_VALUES)
        elif r < 0.75:
            from . import vparse
            t += vparse.gen_value_text(rng, 1, broken=rng.choice([0.0, 0.0, 0.3]))
        else:
            t += gen_query_text(rng)
        t += rng.choice(LET_TAILS)
        texts.append(t)
        if rng.random() < 0.25:
            texts.append(mutate(t, rng))
    seen, out = set(), []
    for t in texts:
        if t not in seen:
            seen.add(t); out.append(t)
    return out


def run_lets(texts, wd, tag='letparse'):
    from . import vparse
    res = impl.run_ops_parallel([{'op': 'plet', 'text': t} for t in texts], wd, tag + '.pl')
    cands = sorted(set().union(*[vparse.regex_candidates(t) for t in texts])) if texts else []
    cand_txt = []
    for c in cands:
        try:
            cand_txt.append(c.decode('utf-8'))
        except UnicodeDecodeError:
            pass
    rres = impl.run_ops_parallel([{'op': 'regex', 're': c, 'text': ''} for c in cand_txt], wd, tag + '.re') if cand_txt else []
    valid = {}
    for c, r in zip(cand_txt, rres):
        rr = r.get('res')
        valid[c] = bool(rr) and rr[0] == 'Ok'
    cases, out = [], [None] * len(texts)
    for i, (t, r) in enumerate(zip(texts, res)):
        if 'res' not in r:
            out[i] = (t, 'crash', r)
            continue
        mine = [c for c in cand_txt if c.encode('utf-8') in vparse.regex_candidates(t)] if '/' in t else []
        table = ct.clist(['(%s, %s)' % (ct.cstr(c), ct.cbool(valid[c])) for c in mine])
        rv = '(fun s => match assoc s %s with Some b => b | None => false end)' % table
        try:
            it = impl_let_term(r['res'])
        except (ct.TranslateError, KeyError, IndexError, TypeError):
            it = 'ILOther'
        cases.append((i, '', 'let_obs %s %s %s' % (rv, ct.cstr(t), it)))
        out[i] = (t, None, r['res'])
    verdicts, errors = model.eval_cases(cases, wd, tag, header=LET_HEADER, per_file=150)
    if errors:
        raise ToolingError('model evaluation failed: %r' % (errors[:1],))
    for i, _, _ in cases:
        out[i] = (out[i][0], verdicts.get(i, 'NoModelOutput'), out[i][2])
    return out


def check_assignments(ctx, tag, n):
    """assignments: Model/LetParse.v against parser.rs `assignment` through the hook `plet`; and on the implementation alone: `=` and `:=`
    with different layouts give the same assignment"""
    texts = let_corpus(ctx.seed, n)
    out = run_lets(texts, ctx.wd, tag)
    stats = {}
    for t, v, r in out:
        stats[v] = stats.get(v, 0) + 1
        if v in ('PLAgree', 'PLAgreeReject', 'PLNotModelled'):
            continue
        ctx.failing('assignment %r: `assignment` answers %s, the model of the grammar says otherwise (%s)' % (t[:80], json.dumps(r)[:200], v),
                    {'class': 'assignment-grammar-correspondence', 'text': t, 'impl': r, 'verdict': v}, found=False)
    vals = ['1', '"s"', '[1, {a: 2}]', 'a.b[0]', "Resources.*[ Type == 'T' ]", '%v.x', 'count(a.b)']
    signs = ['=', ':=', ' = ', ' := ', '\n  =\n  ', ' # c\n := # d\n ']
    ops = [{'op': 'plet', 'text': 'let x' + sg + v + '\n'} for v in vals for sg in signs]
    res = impl.run_ops(ops, ctx.wd, tag + '.eq')
    k = 0
    for v in vals:
        seen = None
        for sg in signs:
            rr = res[k].get('res'); k += 1
            if not rr or rr[0] != 'Ok':
                ctx.failing('the assignment %r is not accepted: %s' % ('let x' + sg + v, json.dumps(rr)[:160]), {'class': 'assignment-sign', 'text': 'let x' + sg + v}, found=True)
                continue
            sv = re.sub(r'\["Loc"[^\]]*\]', 'null', json.dumps(rr[1]))
            sv = re.sub(r'\["Path"[^\]]*\]', 'null', sv)
            if seen is None:
                seen = sv
            elif sv != seen:
                ctx.failing('the sign %r gives another assignment of %r than `=`' % (sg, v), {'class': 'assignment-sign', 'text': 'let x' + sg + v}, found=True)
    ctx.coverage['assignment_texts'] = len(texts)
    ctx.coverage['assignment_verdicts'] = stats
    ctx.coverage['evaluations'] += len(texts) + len(ops)
    return stats.get('PLAgree', 0)


# ------------------------------------------------------------------ function calls: clauses with calls on the right (CallParse.clause_c)
CC_HEADER = ('From Coq Require Import String ZArith NArith List.\nFrom GV.Model Require Import Ast.\nFrom GV.Model Require Import ValueParse QueryParse OpParse ClauseParse CnfParse FilterParse ClauseFParse LetParse CallParse.\n'
             'Import ListNotations.\n')


def impl_value_term(w):
    if w[0] == 'LValue':
        try:
            return '(IVLit %s)' % pv_lit_term(w[1])
        except ct.TranslateError:
            return 'IVOther'
    if w[0] == 'LAccess':
        return '(IVQuery %s %s)' % fparts_term(w[1])
    if w[0] == 'LFunction':
        fx = w[1]
        return '(IVCall F%s %s)' % (fx[2], ct.clist([impl_value_term(x) for x in ct.L(fx[1])]))
    return 'IVOther'


def impl_cclause_term(res):
    if res[0] != 'Ok':
        return {'Error': 'ICCError', 'Failure': 'ICCFailure'}.get(res[0], 'ICCOther')
    ac = res[1][1]
    aq, cmp_, w, custom, neg = ac[1], ac[2], ac[3], ac[4], ac[6]
    w = w['O'] if isinstance(w, dict) and 'O' in w else w
    wt = 'None' if w is None else '(Some %s)' % impl_value_term(w)
    parts, all_ = fparts_term(aq)
    return '(ICCOk %s %s %s O%s %s %s %s %d%%N)' % (ct.cbool(neg), parts, all_, cmp_[1], ct.cbool(cmp_[2]), wt, ct.ostr(custom), res[2])


CALLS = ['count(b)', 'count( b )', 'count(b[*])', "count(b[ c == 1 ])", 'count(%v)', 'count(b, c)', 'count()', 'count (b)', 'count(b', 'count(b))', 'join(b[*], ",")', 'join(b, "," )', 'join(b)', 'join(b,",",c)',
         'json_parse(b)', 'now()', 'now( )', 'now(1)', 'parse_int(b)', 'parse_float("1.5")', 'parse_string(1)', 'parse_boolean("true")', 'parse_char(b)', 'parse_epoch("2020-01-01T00:00:00Z")',
         'regex_replace(b, "a", "c")', 'regex_replace(b, /a/, "c")', 'regex_replace(b,"a")', 'substring(b, 0, 2)', 'substring(b,0,2)', 'substring(b, 0)', 'to_lower(b)', 'to_upper(%v.x)', 'url_decode(b)',
         'to_lower(to_upper(b))', 'join(to_lower(b[*]), "-")', 'count(parse_int(b[*]))', 'nosuch(b)', 'Count(b)', 'COUNT(b)', 'count(\n  b\n)', 'count(# c\n b)', 'count(b # c\n)', 'count(b,)', 'count(,b)',
         'count("open)', 'count([1, 2])', 'count({a: 1})', 'substring("héllo", 1, 3)', 'count(b) <<m>>', 'count(b)x', 'é(b)', 'counté(b)']


def call_clause_corpus(seed, n):
    rng = random.Random(seed * 1511 + 14)
    texts = []
    for c in CALLS:
        texts += ['a == ' + c, 'a in ' + c + ' <<m>>', 'not a >= ' + c, 'a ==' + c, 'a == ' + c + '\n', "a[ x == 1 ].y != " + c]
    while len(texts) < n:
        t = rng.choice(CL_NOTS) + rng.choice(CL_QUERIES[:12] + ["a[ b == 1 ].c"]) + ' ' + rng.choice(CL_OPS_BIN[:11]) + rng.choice([' ', ' ', '', '\n  ', ' # c\n '])
        t += rng.choice(CALLS) + rng.choice(CL_MSGS) + rng.choice(CL_TAILS)
        texts.append(t)
        if rng.random() < 0.3:
            texts.append(mutate(t, rng))
    seen, out = set(), []
    for t in texts:
        if t not in seen:
            seen.add(t); out.append(t)
    return out


def _run_generic(texts, wd, tag, op, header, obs, term_fn, other):
    from . import vparse
    res = impl.run_ops_parallel([{'op': op, 'text': t} for t in texts], wd, tag + '.' + op)
    cands = sorted(set().union(*[vparse.regex_candidates(t) for t in texts])) if texts else []
    cand_txt = []
    for c in cands:
        try:
            cand_txt.append(c.decode('utf-8'))
        except UnicodeDecodeError:
            pass
    rres = impl.run_ops_parallel([{'op': 'regex', 're': c, 'text': ''} for c in cand_txt], wd, tag + '.re') if cand_txt else []
    valid = {}
    for c, r in zip(cand_txt, rres):
        rr = r.get('res')
        valid[c] = bool(rr) and rr[0] == 'Ok'
    cases, out = [], [None] * len(texts)
    for i, (t, r) in enumerate(zip(texts, res)):
        if 'res' not in r:
            out[i] = (t, 'crash', r)
            continue
        mine = [c for c in cand_txt if c.encode('utf-8') in vparse.regex_candidates(t)] if '/' in t else []
        table = ct.clist(['(%s, %s)' % (ct.cstr(c), ct.cbool(valid[c])) for c in mine])
        rv = '(fun s => match assoc s %s with Some b => b | None => false end)' % table
        try:
            it = term_fn(r['res'])
        except (ct.TranslateError, KeyError, IndexError, TypeError):
            it = other
        cases.append((i, '', '%s %s %s %s' % (obs, rv, ct.cstr(t), it)))
        out[i] = (t, None, r['res'])
    verdicts, errors = model.eval_cases(cases, wd, tag, header=header, per_file=120)
    if errors:
        raise ToolingError('model evaluation failed: %r' % (errors[:1],))
    for i, _, _ in cases:
        out[i] = (out[i][0], verdicts.get(i, 'NoModelOutput'), out[i][2])
    return out


def run_call_clauses(texts, wd, tag='ccparse'):
    return _run_generic(texts, wd, tag, 'pclause', CC_HEADER, 'clause_c_obs', impl_cclause_term, 'ICCOther')


def impl_let_c_term(res):
    if res[0] != 'Ok':
        return {'Error': 'ILCError', 'Failure': 'ILCFailure'}.get(res[0], 'ILCOther')
    e = res[1]
    return '(ILCOk %s %s %d%%N)' % (ct.cstr(ct.S(e[1])), impl_value_term(e[2]), res[2])


def call_let_corpus(seed, n):
    rng = random.Random(seed * 1013 + 14)
    texts = []
    for c in CALLS:
        texts += ['let x = ' + c, 'let x := ' + c + '\n', 'let x=' + c, 'let x = ' + c + '\nrule r {']
    while len(texts) < n:
        t = 'let ' + rng.choice(LET_NAMES[:6]) + rng.choice(LET_EQS[:6]) + (rng.choice(CALLS) if rng.random() < 0.7 else rng.choice(LET_VALUES)) + rng.choice(LET_TAILS)
        texts.append(t)
        if rng.random() < 0.3:
            texts.append(mutate(t, rng))
    seen, out = set(), []
    for t in texts:
        if t not in seen:
            seen.add(t); out.append(t)
    return out


def run_call_lets(texts, wd, tag='clparse'):
    return _run_generic(texts, wd, tag, 'plet', CC_HEADER, 'let_c_obs', impl_let_c_term, 'ILCOther')


def check_calls(ctx, tag, n):
    """function calls: Model/CallParse.v (clauses with calls on the right, assignments of calls) against parser.rs through the hooks
    `pclause` and `plet`: every built-in name with right and wrong numbers of arguments, nested calls, layout inside the parentheses,
    unknown and wrongly-cased names, broken calls"""
    stats = {}
    for lab, texts, runner in (('clause', call_clause_corpus(ctx.seed, n), run_call_clauses), ('let', call_let_corpus(ctx.seed, max(300, n // 2)), run_call_lets)):
        out = runner(texts, ctx.wd, tag + lab)
        for t, v, r in out:
            stats[v] = stats.get(v, 0) + 1
            if v in ('PLAgree', 'PLAgreeReject', 'PLNotModelled'):
                continue
            ctx.failing('%s with a call %r: the parser answers %s, the model of the grammar says otherwise (%s)' % (lab, t[:80], json.dumps(r)[:200], v),
                        {'class': 'call-grammar-correspondence', 'text': t, 'impl': r, 'verdict': v}, found=False)
        ctx.coverage['evaluations'] += len(texts)
    ctx.coverage['call_verdicts'] = stats
    return stats.get('PLAgree', 0)
