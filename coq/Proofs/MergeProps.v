(* MergeProps.v — input parameters are merged without loss or silent override (C17). *)
From Coq Require Import Lia Permutation.
From GV.Model Require Import Merge.

Lemma assoc_app : forall A k (l1 l2 : list (string * A)),
  assoc k (l1 ++ l2) = match assoc k l1 with Some v => Some v | None => assoc k l2 end.
Proof.
  induction l1 as [|[k' v] l1 IH]; intros; cbn; [reflexivity|].
  destruct (String.eqb k k'); [reflexivity|apply IH].
Qed.

Lemma assoc_in_keys : forall A k (l : list (string * A)), assoc k l <> None <-> In k (map fst l).
Proof.
  induction l as [|[k' v] l IH]; cbn; [tauto|].
  destruct (String.eqb k k') eqn:E.
  - apply String.eqb_eq in E. subst. split; [auto|congruence].
  - apply String.eqb_neq in E. rewrite IH. split; [auto|]. intros [H|H]; [congruence|auto].
Qed.

Lemma key_in_spec : forall k vals, key_in k vals = true <-> In k (map fst vals).
Proof.
  intros. unfold key_in. rewrite <- assoc_in_keys. destruct (assoc k vals); split; congruence.
Qed.

(* no clash: every key of `other` is new and distinct *)
Fixpoint no_clash (present : list string) (other : list string) : Prop :=
  match other with
  | [] => True
  | k :: r => ~ In k present /\ no_clash (present ++ [k]) r
  end.

Lemma merge_entries_ok : forall other keys vals opath,
  no_clash (map fst vals) (map fst other) ->
  merge_entries keys vals opath other =
  Done (keys ++ map (fun kv => PString (path_extend opath (fst kv)) (fst kv)) other, vals ++ other).
Proof.
  induction other as [|[k v] other IH]; intros keys vals opath H; cbn.
  - now rewrite !app_nil_r.
  - cbn in H. destruct H as [Hk Hr].
    destruct (key_in k vals) eqn:E; [apply key_in_spec in E; tauto|].
    rewrite IH.
    + now rewrite <- !app_assoc.
    + now rewrite map_app.
Qed.

Lemma merge_entries_clash : forall other keys vals opath,
  ~ no_clash (map fst vals) (map fst other) ->
  merge_entries keys vals opath other = Err EMultipleValues.
Proof.
  induction other as [|[k v] other IH]; intros keys vals opath H; cbn.
  - cbn in H. tauto.
  - destruct (key_in k vals) eqn:E; [reflexivity|].
    apply IH. rewrite map_app. cbn. intros Hc. apply H. cbn. split; [|assumption].
    intros Hin. apply key_in_spec in Hin. congruence.
Qed.

(* two maps with disjoint, duplicate-free key sets: the result is the union, first the entries of the
   receiver, then those of the argument, each in its own order; nothing is lost, nothing overridden *)
Theorem merge_disjoint : forall p keys vals p2 keys2 other,
  no_clash (map fst vals) (map fst other) ->
  exists keys', merge (PMap p keys vals) (PMap p2 keys2 other) = Done (PMap p keys' (vals ++ other)) /\
                top_entries (PMap p keys' (vals ++ other)) =
                top_entries (PMap p keys vals) ++ top_entries (PMap p2 keys2 other).
Proof.
  intros. unfold merge. rewrite merge_entries_ok by assumption.
  eexists. split; [reflexivity|]. cbn. now rewrite map_app.
Qed.

(* a key defined by both sources is an error, never a silent choice *)
Theorem merge_conflict_errors : forall p keys vals p2 keys2 other k,
  In k (map fst vals) -> In k (map fst other) ->
  merge (PMap p keys vals) (PMap p2 keys2 other) = Err EMultipleValues.
Proof.
  intros p keys vals p2 keys2 other k H1 H2. unfold merge.
  rewrite merge_entries_clash; [reflexivity|].
  clear -H1 H2. revert vals H1. induction other as [|[k' v] other IH]; intros vals H1; cbn in *; [tauto|].
  intros [Hn Hr]. destruct H2 as [->|H2]; [tauto|].
  apply (IH H2 (vals ++ [(k', v)])); [|now rewrite map_app].
  rewrite map_app. apply in_or_app. auto.
Qed.

Lemma no_clash_dec : forall other present, {no_clash present other} + {~ no_clash present other}.
Proof.
  induction other as [|k r IH]; intros present; cbn; [left; exact I|].
  destruct (in_dec string_dec k present) as [Hin|Hnin].
  - right. tauto.
  - destruct (IH (present ++ [k])) as [H|H]; [left; tauto|right; tauto].
Qed.

(* a successful merge never loses or changes an entry of either side *)
Theorem merge_no_loss : forall a b m k,
  merge a b = Done m -> is_map a = true ->
  (assoc k (top_entries a) <> None -> assoc k (top_entries m) = assoc k (top_entries a)) /\
  (assoc k (top_entries a) = None -> assoc k (top_entries m) = assoc k (top_entries b)).
Proof.
  intros a b m k H Ha. destruct a; try discriminate. destruct b; try discriminate.
  unfold merge in H.
  destruct (no_clash_dec (map fst vals0) (map fst vals)) as [Hn|Hn].
  - rewrite merge_entries_ok in H by assumption. inversion H; subst. cbn.
    rewrite map_app, assoc_app.
    split; intros Hk.
    + destruct (assoc k (map (fun kv => (fst kv, strip (snd kv))) vals)); [reflexivity|congruence].
    + now rewrite Hk.
  - rewrite merge_entries_clash in H by assumption. discriminate.
Qed.

Lemma combine_app' : forall A B (l1 l1' : list A) (l2 l2' : list B),
  List.length l1 = List.length l2 -> combine (l1 ++ l1') (l2 ++ l2') = combine l1 l2 ++ combine l1' l2'.
Proof.
  induction l1 as [|x l1 IH]; intros l1' [|y l2] l2' H; cbn in *; try discriminate; [reflexivity|].
  f_equal. apply IH. lia.
Qed.

(* alignment of the keys vector with the values map is preserved *)
Theorem merge_keeps_alignment : forall a b m,
  merge a b = Done m -> aligned a = true -> aligned m = true.
Proof.
  intros a b m H Ha. destruct a; destruct b; cbn in H; try discriminate; try (inversion H; subst; reflexivity).
  destruct (no_clash_dec (map fst vals0) (map fst vals)) as [Hn|Hn].
  - rewrite merge_entries_ok in H by assumption. inversion H; subst. cbn in *.
    apply andb_true_iff in Ha as [Hl Hf]. apply Nat.eqb_eq in Hl.
    rewrite !app_length, map_length. apply andb_true_iff. split; [apply Nat.eqb_eq; lia|].
    rewrite combine_app' by assumption.
    rewrite forallb_app, Hf. cbn.
    clear. induction vals0 as [|[k v] r IH]; cbn; [reflexivity|]. now rewrite String.eqb_refl.
  - rewrite merge_entries_clash in H by assumption. discriminate.
Qed.

Lemma NoDup_app_remove_r : forall A (l l' : list A), NoDup (l ++ l') -> NoDup l.
Proof.
  induction l as [|x l IH]; intros l' H; [constructor|].
  cbn in H. inversion H as [|? ? Hn Hd]; subst. constructor.
  - intros Hin. apply Hn. apply in_or_app. auto.
  - eapply IH; eauto.
Qed.

Lemma nodup_no_clash : forall other present, NoDup (present ++ other) -> no_clash present other.
Proof.
  induction other as [|k r IH]; intros present H; cbn; [exact I|]. split.
  - apply NoDup_remove_2 in H. intros Hin. apply H. apply in_or_app. auto.
  - apply IH. now rewrite <- app_assoc.
Qed.

(* the fold over the parameter files and the data: with pairwise disjoint key sets the input evaluated is the
   concatenation, whatever the order of the parameter files the KEY -> VALUE map is the same *)
Fixpoint all_entries (l : list pv) : list (string * value) :=
  match l with [] => [] | x :: r => top_entries x ++ all_entries r end.

Lemma top_entries_keys : forall v, map fst (top_entries v) = top_keys v.
Proof. reflexivity. Qed.

Theorem merged_input_union : forall params data,
  Forall (fun v => is_map v = true) (params ++ [data]) ->
  NoDup (map fst (all_entries (params ++ [data]))) ->
  exists m, merged_input params data = Done m /\ top_entries m = all_entries (params ++ [data]).
Proof.
  intros params data Hmaps Hnd.
  assert (G : forall files acc,
             is_map acc = true -> Forall (fun v => is_map v = true) files ->
             NoDup (map fst (top_entries acc ++ all_entries files)) ->
             exists m, merge_params (Some acc) files = Done (Some m) /\ is_map m = true /\
                       top_entries m = top_entries acc ++ all_entries files).
  { induction files as [|f files IH]; intros acc Hacc Hf Hn.
    - exists acc. cbn. rewrite app_nil_r. auto.
    - inversion Hf as [|? ? Hf1 Hf2]; subst. cbn [merge_params].
      destruct acc; try discriminate. destruct f; try discriminate.
      assert (Hnc : no_clash (map fst vals) (map fst vals0)).
      { apply nodup_no_clash. clear -Hn. cbn in Hn. rewrite !map_app, !map_map in Hn. cbn in Hn.
        rewrite app_assoc in Hn. apply NoDup_app_remove_r in Hn. exact Hn. }
      destruct (merge_disjoint p keys vals p0 keys0 vals0 Hnc) as (keys' & Hm & Hte).
      rewrite Hm.
      destruct (IH (PMap p keys' (vals ++ vals0))) as (m & Hm2 & Hmap & Hte2); auto.
      + rewrite Hte. cbn [all_entries] in Hn. now rewrite <- app_assoc.
      + exists m. split; [exact Hm2|]. split; [exact Hmap|]. rewrite Hte2, Hte. cbn [all_entries]. now rewrite app_assoc. }
  unfold merged_input. destruct params as [|p0 params].
  - cbn. exists data. cbn. now rewrite app_nil_r.
  - cbn [merge_params]. cbn [app] in Hmaps, Hnd. inversion Hmaps as [|? ? Hp0 Hrest]; subst.
    apply Forall_app in Hrest as [Hps Hd]. inversion Hd as [|? ? Hd1 _]; subst.
    destruct (G params p0 Hp0 Hps) as (m & Hm & Hmm & Hte).
    { cbn [all_entries] in Hnd. rewrite map_app in Hnd. rewrite map_app.
      assert (E : all_entries (params ++ [data]) = all_entries params ++ top_entries data).
      { clear. induction params as [|x r IH]; cbn; [now rewrite app_nil_r|]. now rewrite IH, app_assoc. }
      rewrite E, map_app, app_assoc in Hnd. now apply NoDup_app_remove_r in Hnd. }
    rewrite Hm.
    destruct m; try discriminate. destruct data; try discriminate.
    assert (E : all_entries (params ++ [PMap p1 keys0 vals0]) = all_entries params ++ top_entries (PMap p1 keys0 vals0)).
    { clear. induction params as [|x r IH]; cbn; [now rewrite app_nil_r|]. now rewrite IH, app_assoc. }
    assert (Hnc : no_clash (map fst vals) (map fst vals0)).
    { cbn [all_entries] in Hnd. rewrite E in Hnd. rewrite app_assoc, <- Hte in Hnd. cbn in Hnd.
      rewrite map_app, !map_map in Hnd. cbn in Hnd.
      apply nodup_no_clash. exact Hnd. }
    destruct (merge_disjoint p keys vals p1 keys0 vals0 Hnc) as (keys' & Hm3 & Hte3).
    rewrite Hm3. eexists. split; [reflexivity|].
    rewrite Hte3. cbn [all_entries app]. rewrite E, app_assoc, <- Hte. reflexivity.
Qed.

(* any order of the parameter files gives the same key -> value map *)
Theorem param_order_same_map : forall params params' data m m',
  Permutation params params' ->
  merged_input params data = Done m -> merged_input params' data = Done m' ->
  top_entries m = all_entries (params ++ [data]) -> top_entries m' = all_entries (params' ++ [data]) ->
  Permutation (top_entries m) (top_entries m').
Proof.
  intros params params' data m m' Hp _ _ -> ->.
  assert (E : forall l, all_entries (l ++ [data]) = all_entries l ++ top_entries data).
  { induction l as [|x r IH]; cbn; [now rewrite app_nil_r|]. now rewrite IH, app_assoc. }
  rewrite !E. apply Permutation_app_tail.
  induction Hp; cbn; auto.
  - now apply Permutation_app_head.
  - rewrite !app_assoc. apply Permutation_app_tail. apply Permutation_app_comm.
  - eapply Permutation_trans; eauto.
Qed.
