(* TableProps.v — the small tables of the evaluator that the model hard-codes are the ones the Rust source declares
   (Generated/EvalTables.v is rewritten from the source on every run by tools/gv/tables.py): the CmpOperator variants and
   which of them are unary, the dispatch of the unary operators to their per-value operations, Status::and as a truth
   table, the order of the case converters. *)
From GV.Model Require Import SEval.
From GV.Generated Require Import EvalTables.
Local Open Scope string_scope.

Definition op_name (o : cmp_op) : string :=
  match o with
  | OEq => "Eq" | OIn => "In" | OGt => "Gt" | OLt => "Lt" | OLe => "Le" | OGe => "Ge" | OExists => "Exists" | OEmpty => "Empty"
  | OIsString => "IsString" | OIsList => "IsList" | OIsMap => "IsMap" | OIsBool => "IsBool" | OIsInt => "IsInt"
  | OIsFloat => "IsFloat" | OIsNull => "IsNull"
  end.
Definition all_ops : list cmp_op :=
  [OEq; OIn; OGt; OLt; OLe; OGe; OExists; OEmpty; OIsString; OIsList; OIsMap; OIsBool; OIsInt; OIsFloat; OIsNull].

Definition status_name (s : status) : string := match s with PASS => "PASS" | FAIL => "FAIL" | SKIP => "SKIP" end.

Definition vtype_name (t : vtype) : string :=
  match t with
  | TNull => "Null" | TString => "String" | TRegex => "Regex" | TBool => "Bool" | TInt => "Int" | TFloat => "Float" | TChar => "Char"
  | TList => "List" | TMap => "Map" | TRangeInt => "RangeInt" | TRangeFloat => "RangeFloat" | TRangeChar => "RangeChar"
  end.

(* the per-value operation of a unary operator, by the name the source gives it *)
Inductive unary_kind := UExists | UEmpty | UType (t : vtype).
Definition unary_kind_of (o : cmp_op) : option unary_kind :=
  match o with
  | OExists => Some UExists | OEmpty => Some UEmpty
  | OIsString => Some (UType TString) | OIsList => Some (UType TList) | OIsMap => Some (UType TMap) | OIsBool => Some (UType TBool)
  | OIsInt => Some (UType TInt) | OIsFloat => Some (UType TFloat) | OIsNull => Some (UType TNull)
  | _ => None
  end.
Definition denote_unary (k : unary_kind) : qres -> outcome bool :=
  match k with UExists => exists_operation | UEmpty => element_empty_operation | UType t => is_type_operation t end.

Fixpoint lookup (k : string) (l : list (string * string)) : option string :=
  match l with [] => None | (a, b) :: r => if String.eqb a k then Some b else lookup k r end.

(* the source's name of the operation, resolved through the is_type_fn! declarations *)
Definition src_kind (o : cmp_op) : option string :=
  match lookup (op_name o) src_unary_dispatch with
  | None => None
  | Some f => if String.eqb f "exists_operation" then Some "exists"
              else if String.eqb f "element_empty_operation" then Some "empty"
              else lookup f src_type_fns
  end.
Definition kind_name (k : unary_kind) : string :=
  match k with UExists => "exists" | UEmpty => "empty" | UType t => vtype_name t end.

Fixpoint lookup3 (a b : string) (l : list (string * string * string)) : option string :=
  match l with [] => None | (x, y, z) :: r => if String.eqb x a && String.eqb y b then Some z else lookup3 a b r end.

Lemma cmp_operators_are_the_source_enum : map op_name all_ops = src_cmp_operators /\ forall o, In o all_ops.
Proof. split; [vm_compute; reflexivity|]. intros o. destruct o; cbn; tauto. Qed.

Lemma is_unary_is_the_source_table o : is_unary o = existsb (String.eqb (op_name o)) src_unary_operators.
Proof. destruct o; vm_compute; reflexivity. Qed.

Lemma unary_base_is_the_model_dispatch o : unary_base o = option_map denote_unary (unary_kind_of o).
Proof. destruct o; reflexivity. Qed.

Lemma unary_dispatch_is_the_source_table o : option_map kind_name (unary_kind_of o) = src_kind o.
Proof. destruct o; vm_compute; reflexivity. Qed.

Lemma unary_unreachable_arm_is_the_binary_operators o :
  existsb (String.eqb (op_name o)) src_unary_unreachable = negb (is_unary o).
Proof. destruct o; vm_compute; reflexivity. Qed.

Lemma status_and_is_the_source_table a b :
  lookup3 (status_name a) (status_name b) src_status_and = Some (status_name (status_and a b)).
Proof. destruct a, b; vm_compute; reflexivity. Qed.

Lemma converters_are_the_seven_of_the_source :
  src_converters = ["camel"; "class"; "kebab"; "pascal"; "snake"; "title"; "train"].
Proof. vm_compute. reflexivity. Qed.
