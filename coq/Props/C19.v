(* C19 — generated rules describe the template they were generated from (partial). Pinned statements only.
   Proved: the data-structure half of rulegen (Model/Rulegen.v): which rules exist, which values a clause lists, which
   operator it uses. That the printed clause then PASSes on the template is the evaluator's part and is checked end to
   end (rulegen output validated against its own template; tools/gv/props/c19.py). *)
From GV.Model Require Import Rulegen.
From GV.Proofs Require Import RulegenProps.

(* one rule per resource type that has properties - and only for those *)
Theorem C19_rule_for_type_iff : forall rs t,
  (exists pm, assoc t (gen_rules rs) = Some pm) <-> exists r p v, In r rs /\ fst r = Some t /\ In (p, v) (snd r).
Proof. exact rule_for_type_iff. Qed.
Print Assumptions C19_rule_for_type_iff.

(* the values listed for (type, property) are exactly the values the template gives that property on a resource of that
   type: every template value is accepted, and a value that is not present for that type and property is not *)
Theorem C19_values_exactly_the_template : forall rs u q w,
  In w (values_of (gen_rules rs) u q) <-> exists r, In r rs /\ fst r = Some u /\ In (q, w) (snd r).
Proof. exact values_exactly_the_template. Qed.
Print Assumptions C19_values_exactly_the_template.

Theorem C19_clause_accepts_members : forall p s v,
  clause_accepts (clause_of (p, s)) v = existsb (String.eqb v) s.
Proof. exact clause_accepts_members. Qed.
Print Assumptions C19_clause_accepts_members.

(* == for singletons, IN for sets *)
Theorem C19_operator_choice : forall p s,
  (exists v, s = [v] /\ clause_of (p, s) = GEq p v) \/ (List.length s <> 1%nat /\ clause_of (p, s) = GIn p s).
Proof. exact operator_choice. Qed.
Print Assumptions C19_operator_choice.

(* the two halves of the statement on the value sets: the template passes the clauses generated from it, and a value it does not
   give to that property of that type makes the clause fail *)
Theorem C19_template_passes_its_own_clauses : forall rs r t p v,
  In r rs -> fst r = Some t -> In (p, v) (snd r) ->
  clause_accepts (clause_of (p, values_of (gen_rules rs) t p)) v = true.
Proof. exact template_passes_its_own_clauses. Qed.
Print Assumptions C19_template_passes_its_own_clauses.

Theorem C19_foreign_value_is_rejected : forall rs t p w,
  (forall r, In r rs -> fst r = Some t -> ~ In (p, w) (snd r)) ->
  clause_accepts (clause_of (p, values_of (gen_rules rs) t p)) w = false.
Proof. exact foreign_value_is_rejected. Qed.
Print Assumptions C19_foreign_value_is_rejected.
