// Harness: runs the implementation (built from /repo's working tree with
// --cfg guard_verif) on a JSONL stream of operations and writes one JSON
// result per line. Every op runs under catch_unwind; results are flushed
// line by line so that an abort (stack overflow) identifies the op it died on.
use std::io::{BufRead, BufWriter, Write};
use std::panic::{catch_unwind, AssertUnwindSafe};
use std::sync::Mutex;

use cfn_guard::verif_hooks as h;
use cfn_guard::{run_checks, ValidateInput};
use serde_json::{json, Value as J};

static LAST_PANIC: Mutex<Option<String>> = Mutex::new(None);

fn gs<'a>(op: &'a J, k: &str) -> &'a str {
    op.get(k).and_then(|x| x.as_str()).unwrap_or("")
}

fn raw(sx: String) -> J {
    serde_json::from_str::<J>(&sx).unwrap_or(J::String(sx))
}

fn run_op(op: &J) -> J {
    match gs(op, "op") {
        "eval" => {
            let mut out = raw(h::eval_dump(
                gs(op, "rules"),
                gs(op, "data"),
                gs(op, "loader"),
                "data.json",
            ));
            if op.get("public").and_then(|x| x.as_bool()).unwrap_or(false) {
                for (key, verbose) in [("rc_verbose", true), ("rc_plain", false)] {
                    let r = catch_unwind(AssertUnwindSafe(|| {
                        run_checks(
                            ValidateInput { content: gs(op, "data"), file_name: "data.json" },
                            ValidateInput { content: gs(op, "rules"), file_name: "rules.guard" },
                            verbose,
                        )
                    }));
                    let v = match r {
                        Ok(Ok(sx)) => json!({"ok": raw(sx)}),
                        Ok(Err(e)) => json!({"err": h::error_kind(&e), "msg": e.to_string()}),
                        Err(_) => json!({"panic": LAST_PANIC.lock().unwrap().take()}),
                    };
                    out[key] = v;
                }
            }
            out
        }
        "runchecks" => {
            let r = run_checks(
                ValidateInput { content: gs(op, "data"), file_name: gs(op, "data_name") },
                ValidateInput { content: gs(op, "rules"), file_name: gs(op, "rules_name") },
                op.get("verbose").and_then(|x| x.as_bool()).unwrap_or(false),
            );
            match r {
                Ok(sx) => json!({"ok": raw(sx)}),
                Err(e) => json!({"err": h::error_kind(&e), "msg": e.to_string()}),
            }
        }
        "ast" => raw(h::ast_dump(gs(op, "rules"), "rules.guard")),
        "doc" => raw(h::doc_dump(gs(op, "data"), gs(op, "loader"))),
        "lit" => raw(h::lit_dump(gs(op, "text"))),
        "pvalue" => raw(h::parse_value_dump(gs(op, "text"))),
        "paccess" => raw(h::parse_access_dump(gs(op, "text"))),
        "pcmp" => raw(h::parse_cmp_dump(gs(op, "text"))),
        "pclause" => raw(h::parse_clause_dump(gs(op, "text"))),
        "pconds" => raw(h::parse_conditions_dump(gs(op, "text"))),
        "plet" => raw(h::parse_let_dump(gs(op, "text"))),
        "cmp" => raw(h::compare(gs(op, "cmp"), gs(op, "lhs"), gs(op, "rhs"))),
        "and" => raw(h::status_and(gs(op, "a"), gs(op, "b"))),
        "merge" => raw(h::merge(gs(op, "a"), gs(op, "b"), gs(op, "loader"))),
        "regex" => raw(h::regex_is_match(gs(op, "re"), gs(op, "text"))),
        "cruet" => {
            let key = gs(op, "key");
            J::Array((0..7).map(|i| J::String(h::cruet(i, key))).collect())
        }
        "i64" => json!(h::i64_from_str(gs(op, "text"))),
        "f64" => json!(h::f64_from_str_bits(gs(op, "text")).map(|b| b.to_string())),
        "tsr" => {
            let sts: Vec<&str> = op
                .get("statuses")
                .and_then(|x| x.as_array())
                .map(|a| a.iter().filter_map(|x| x.as_str()).collect())
                .unwrap_or_default();
            raw(h::test_status_result(gs(op, "expected"), &sts))
        }
        other => json!({"harness_error": format!("unknown op {other}")}),
    }
}

fn main() {
    let args: Vec<String> = std::env::args().collect();
    if args.len() < 3 {
        eprintln!("usage: harness <ops.jsonl> <out.jsonl> [start_index]");
        std::process::exit(2);
    }
    let start: usize = args.get(3).and_then(|x| x.parse().ok()).unwrap_or(0);
    std::panic::set_hook(Box::new(|info| {
        let loc = info
            .location()
            .map(|l| format!("{}:{}", l.file(), l.line()))
            .unwrap_or_default();
        let msg = if let Some(x) = info.payload().downcast_ref::<&str>() {
            x.to_string()
        } else if let Some(x) = info.payload().downcast_ref::<String>() {
            x.clone()
        } else {
            String::from("?")
        };
        *LAST_PANIC.lock().unwrap() = Some(format!("{loc}: {msg}"));
    }));
    let input = std::io::BufReader::new(std::fs::File::open(&args[1]).expect("ops file"));
    let mut out = BufWriter::new(
        std::fs::OpenOptions::new()
            .create(true)
            .append(true)
            .open(&args[2])
            .expect("out file"),
    );
    for (i, line) in input.lines().enumerate() {
        if i < start {
            continue;
        }
        let line = line.expect("read");
        if line.trim().is_empty() {
            continue;
        }
        let op: J = match serde_json::from_str(&line) {
            Ok(v) => v,
            Err(e) => {
                writeln!(out, "{}", json!({"i": i, "harness_error": e.to_string()})).unwrap();
                continue;
            }
        };
        // announce the op before running it, so an abort is attributable
        writeln!(out, "{}", json!({"i": i, "start": true})).unwrap();
        out.flush().unwrap();
        let res = catch_unwind(AssertUnwindSafe(|| run_op(&op)));
        let v = match res {
            Ok(v) => json!({"i": i, "id": op.get("id"), "res": v}),
            Err(_) => json!({"i": i, "id": op.get("id"), "panic": LAST_PANIC.lock().unwrap().take()}),
        };
        writeln!(out, "{}", v).unwrap();
        out.flush().unwrap();
    }
}
