(* C05 — evaluation is deterministic. Pinned statements only. The evaluator model SEval has no hash-order, clock or
   history parameter at all (every HashMap of Scope/RootScope is lookup-only: hash_iter inventory); the theorems
   below cover the places where output order could depend on a container. *)
From Coq Require Import Permutation.
From GV.Model Require Import SEval TestCmd.
From GV.Proofs Require Import DeterminismProps.

(* evaluation is a function of (oracles, rules, fuel, document): same inputs, same status, records and state *)
Theorem C05_eval_is_a_function : forall re conv prog fuel doc r1 r2,
  eval_file re conv prog fuel doc = r1 -> eval_file re conv prog fuel doc = r2 -> r1 = r2.
Proof. exact (fun re conv prog fuel doc r1 r2 H1 H2 => eq_trans (eq_sym H1) H2). Qed.
Print Assumptions C05_eval_is_a_function.

(* test reports: rule names in order of first appearance in the evaluation record (IndexMap since fix 0a447c0) *)
Theorem C05_test_report_order : forall rules,
  map fst (get_by_rules rules) = add_keys [] (map fst rules).
Proof. exact get_by_rules_order. Qed.
Print Assumptions C05_test_report_order.

(* console reporters that iterate a hash container print the same blocks up to permutation *)
Theorem C05_blocks_perm_invariant : forall A B (render : A -> B) (entries : list A) (order1 order2 : list A -> list A),
  (forall l, Permutation (order1 l) l) -> (forall l, Permutation (order2 l) l) ->
  Permutation (map render (order1 entries)) (map render (order2 entries)).
Proof. exact blocks_perm_invariant. Qed.
Print Assumptions C05_blocks_perm_invariant.

Theorem C05_sorted_order_invariant : forall A (sort : list A -> list A) (order1 order2 : list A -> list A) entries,
  (forall l l', Permutation l l' -> sort l = sort l') ->
  (forall l, Permutation (order1 l) l) -> (forall l, Permutation (order2 l) l) ->
  sort (order1 entries) = sort (order2 entries).
Proof. exact sorted_order_invariant. Qed.
Print Assumptions C05_sorted_order_invariant.
