"""C07 — the verdict is independent of output format, verbosity and entry point (partial).

proof   : Props/C07.v (summary table = structured sets; one SARIF result per reported check; same exit status in every
          mode when all rules files parse; the mixed parse-error + FAIL case is mode dependent)
tie     : Report.v is tied to the implementation by C09's correspondence, Cli.v by C06's
monitor : the cross product of the statement on generated (rules, data): {console summary -S all|pass|fail|skip|none,
          -v, -p, -o json, -o yaml, --structured json|yaml|sarif|junit} x {files, stdin, --payload, run_checks}: the sets of
          rules reported PASS / FAIL / SKIP, the file status and the exit code extracted from every rendering must agree;
          JSON, YAML and XML outputs must parse, JSON and YAML must denote the same data, SARIF must carry one result per
          reported failing check, JUnit marks must agree with the per-file verdict
not provable here: well-formedness of what serde_json / serde_yaml / quick_xml emit - observed by parsing every output.
"""
import json, random, os, re
import xml.etree.ElementTree as ET
from .. import impl, gen, e2e
from ..common import *

try:
    import yaml
except ImportError:
    yaml = None


def sets_from_report(fr):
    nc = sorted(set(r['Rule']['name'] for r in fr['not_compliant'] if 'Rule' in r))
    return {'PASS': sorted(set(fr['compliant'])), 'FAIL': nc, 'SKIP': sorted(set(fr['not_applicable'])), 'status': fr['status']}


def count_checks(cr):
    if 'Rule' in cr:
        return sum(count_checks(x) for x in cr['Rule']['checks'])
    if 'Disjunctions' in cr:
        return sum(count_checks(x) for x in cr['Disjunctions']['checks'])
    return 1


def sets_from_record(rec):
    """print-json / verbose run_checks: EventRecord JSON"""
    out = {'PASS': set(), 'FAIL': set(), 'SKIP': set()}
    cont = rec.get('container') or {}
    st = None
    if 'FileCheck' in cont:
        st = cont['FileCheck']['status']
    for ch in rec.get('children', []):
        c = ch.get('container') or {}
        if 'RuleCheck' in c:
            out[c['RuleCheck']['status']].add(c['RuleCheck']['name'])
    # a name with several definitions may be in several sets, as in the structured report
    return {'PASS': sorted(out['PASS']), 'FAIL': sorted(out['FAIL']), 'SKIP': sorted(out['SKIP']), 'status': st}


def sets_from_summary(text, rules_file):
    out = {'PASS': set(), 'FAIL': set(), 'SKIP': set()}
    status = None
    section = None
    for line in text.splitlines():
        m = re.match(r'^\S.* Status = (PASS|FAIL|SKIP)$', line)
        if m and status is None:
            status = m.group(1)
        if line.strip() in ('SKIP rules', 'PASS rules', 'FAILED rules'):
            section = line.strip()
            continue
        if line.strip() == '---':
            section = None
        m = re.match(r'^(\S+)\s+(PASS|FAIL|SKIP)$', line)
        if m and section:
            name = m.group(1)
            if name.startswith(rules_file + '/'):
                name = name[len(rules_file) + 1:]
            out[m.group(2)].add(name)
    return {'PASS': sorted(out['PASS']), 'FAIL': sorted(out['FAIL']), 'SKIP': sorted(out['SKIP']), 'status': status}


_YAML12_NUM = re.compile(r'[-+]?(\.[0-9]+|[0-9]+(\.[0-9]*)?)([eE][-+]?[0-9]+)?$')


def same_yaml_json(y, j):
    """equality of a YAML document as PyYAML reads it and a JSON document: PyYAML follows YAML 1.1, where a float needs a dot
    (`1e308` is a string there); the tool writes YAML 1.2, where it is a float - such strings equal the number they spell"""
    if isinstance(y, str) and isinstance(j, (int, float)) and not isinstance(j, bool) and _YAML12_NUM.match(y):
        try:
            return float(y) == float(j)
        except ValueError:
            return False
    if isinstance(y, dict) and isinstance(j, dict):
        return set(y) == set(j) and all(same_yaml_json(y[k], j[k]) for k in y)
    if isinstance(y, list) and isinstance(j, list):
        return len(y) == len(j) and all(same_yaml_json(a, b) for a, b in zip(y, j))
    if isinstance(y, bool) != isinstance(j, bool):
        return False
    return y == j


def split_json_docs(text):
    """-o json without --structured prints one pretty JSON document per data file, possibly followed by other text"""
    dec = json.JSONDecoder()
    i, out = 0, []
    while i < len(text):
        while i < len(text) and text[i] not in '{[':
            i += 1
        if i >= len(text):
            break
        try:
            obj, j = dec.raw_decode(text, i)
        except ValueError:
            i += 1
            continue
        out.append(obj)
        i = j
    return out


BODY = {'P': 'x == 1', 'F': 'x == 2 <<wrong x>>', 'S': 'when x == 2 { y == 2 }'}


def hand_scenarios():
    """shapes the generator rarely produces: a rule name defined several times with every combination of outcomes; failing
    checks that live in a parameterised rule called from a named rule (directly, in a block, in an or-line, twice)"""
    import itertools
    out = []
    doc = {'x': 1, 'y': 2, 'o': {'a': 5, 'b': 6, 'l': [1, 2, 3]}}
    for n in (2, 3):
        for combo in itertools.product('PFS', repeat=n):
            rules = ''.join('rule a {\n  %s\n}\n' % BODY[c] for c in combo) + 'rule z {\n  y == 2\n}\n'
            out.append((rules, doc))
    chk = {1: 'rule chk(p) {\n  %p.a == 1 <<a is not 1>>\n}\n',
           2: 'rule chk(p) {\n  %p.a == 1 <<a is not 1>>\n  %p.b == 2 <<b is not 2>>\n}\n',
           3: 'rule chk(p) {\n  %p.a == 1\n  %p.b == 2 or %p.b == 3\n  %p.l[*] > 1\n}\n',
           0: 'rule chk(p) {\n  %p.a == 5\n  %p.b == 6\n}\n'}
    for k, c in chk.items():
        out.append((c + 'rule r {\n  chk(o)\n}\n', doc))
        out.append((c + 'rule r {\n  x == 1\n  chk(o) <<call failed>>\n}\n', doc))
        out.append((c + 'rule r {\n  x == 2 or\n  chk(o)\n}\n', doc))
        out.append((c + 'rule r {\n  o {\n    chk(this)\n  }\n}\n', doc))
        out.append((c + 'rule r {\n  chk(o)\n  chk(o)\n}\nrule q {\n  r\n}\n', doc))
        out.append((c + 'rule r when x == 1 {\n  chk(o)\n  o.l[*] < 3\n}\n', doc))
    return out


def run_cross(ctx, n, thorough):
    rng = random.Random(ctx.seed * 71 + 7)
    scen, jobs, meta = [], [], []
    ops = []
    hand = hand_scenarios()
    ctx.coverage['hand_scenarios'] = len(hand)
    for k in range(n + len(hand)):
        if k < len(hand):
            rules, doc = hand[k]
            data = json.dumps(doc, indent=1)
        else:
            if rng.random() < 0.4:
                doc = gen.gen_cfn(rng)
                prog = gen.ProgGen(rng, doc, {'cycles': 0.0, 'dup_names': 0.3, 'param_rate': 0.5}).gen_file()
            else:
                doc, prog = gen.gen_pair(rng, {'cycles': 0.0, 'dup_names': 0.3, 'param_rate': 0.5})
            rules = gen.render_file(prog)
            data = json.dumps(doc, indent=1)
        d = os.path.join(ctx.wd, 'x%d' % k)
        e2e.write_files(d, {'r.guard': rules, 'd.json': data})
        scen.append({'rules': rules, 'doc': doc})
        base = ['validate', '-r', 'r.guard', '-d', 'd.json']
        confs = [('summary-all', base + ['-S', 'all']), ('summary-pass', base + ['-S', 'pass']), ('summary-fail', base + ['-S', 'fail']),
                 ('summary-skip', base + ['-S', 'skip']), ('summary-none', base + ['-S', 'none']),
                 ('verbose', base + ['-v', '-S', 'all']), ('print-json', base + ['-p', '-S', 'none']),
                 ('o-json', base + ['-o', 'json', '-S', 'none']), ('o-yaml', base + ['-o', 'yaml', '-S', 'none']),
                 ('o-json-all', base + ['-o', 'json', '-S', 'all']),
                 ('s-json', base + ['--structured', '-o', 'json', '-S', 'none']), ('s-yaml', base + ['--structured', '-o', 'yaml', '-S', 'none']),
                 ('s-sarif', base + ['--structured', '-o', 'sarif', '-S', 'none']), ('s-junit', base + ['--structured', '-o', 'junit', '-S', 'none'])]
        for lab, args in confs:
            jobs.append({'args': args, 'cwd': d})
            meta.append((k, lab))
        stdin_args = ['validate', '-r', 'r.guard']
        jobs.append({'args': stdin_args + ['--structured', '-o', 'json', '-S', 'none'], 'cwd': d, 'stdin': data.encode()})
        meta.append((k, 'stdin-s-json'))
        jobs.append({'args': stdin_args + ['-S', 'all'], 'cwd': d, 'stdin': data.encode()})
        meta.append((k, 'stdin-summary-all'))
        payload = json.dumps({'rules': [rules], 'data': [data]}).encode()
        jobs.append({'args': ['validate', '--payload', '--structured', '-o', 'json', '-S', 'none'], 'cwd': d, 'stdin': payload})
        meta.append((k, 'payload-s-json'))
        jobs.append({'args': ['validate', '--payload', '-S', 'all'], 'cwd': d, 'stdin': payload})
        meta.append((k, 'payload-summary-all'))
        ops.append({'op': 'eval', 'rules': rules, 'data': data, 'loader': 'lib', 'public': True})
    res = e2e.run_many(jobs)
    lib = impl.run_ops_parallel(ops, ctx.wd, 'c07lib')
    by = {}
    for (k, lab), r in zip(meta, res):
        by.setdefault(k, {})[lab] = r
    compared = 0
    views_total = 0
    dist = {'PASS': 0, 'FAIL': 0, 'SKIP': 0, 'error': 0}
    for k, sc in enumerate(scen):
        info = {'class': 'format-independence', 'rules': sc['rules'], 'doc': sc['doc']}
        runs = by[k]
        ref_code, ref_out, ref_err = runs['s-json']
        if ref_code not in (0, 19):
            dist['error'] += 1
            # an error exit: every mode must fail too (never 0 / 19), crashes are C08's
            for lab, (c, so, se) in runs.items():
                if c in (0, 19):
                    ctx.failing('%s exits %s although --structured -o json fails with %s' % (lab, c, ref_code), dict(info, mode=lab), found=True)
            continue
        try:
            ref = sets_from_report(json.loads(ref_out.decode())[0])
        except Exception as e:
            ctx.failing('--structured -o json output is not a well-formed report: %s' % e, info, found=True)
            continue
        dist[ref['status']] += 1
        compared += 1
        views = {}
        # exit code agrees with the verdict in every configuration
        for lab, (c, so, se) in runs.items():
            if c != ref_code:
                ctx.failing('%s exits %s, --structured -o json exits %s' % (lab, c, ref_code), dict(info, mode=lab, stderr=se[-300:].decode('utf-8', 'replace')), found=True)
        if (ref_code == 19) != (ref['status'] == 'FAIL'):
            ctx.failing('exit code %s with file status %s' % (ref_code, ref['status']), info, found=True)
        for lab in ('stdin-s-json', 'payload-s-json'):
            try:
                views[lab] = sets_from_report(json.loads(runs[lab][1].decode())[0])
            except Exception as e:
                ctx.failing('%s output is not a well-formed report: %s' % (lab, e), dict(info, mode=lab), found=True)
        if yaml is not None:
            for lab, jl in (('s-yaml', 's-json'), ('o-yaml', 'o-json')):
                try:
                    y = yaml.safe_load(runs[lab][1].decode())
                    j = json.loads(runs[jl][1].decode()) if jl == 's-json' else (split_json_docs(runs[jl][1].decode()) or [None])[0]
                    if jl == 's-json' and not same_yaml_json(y, j):
                        ctx.failing('structured YAML and JSON outputs denote different data', dict(info, mode=lab), found=True)
                    if jl == 'o-json' and not same_yaml_json(y, j):
                        ctx.failing('-o yaml and -o json outputs denote different data', dict(info, mode=lab), found=True)
                    yy = y[0] if isinstance(y, list) else y
                    views[lab] = sets_from_report(yy)
                except Exception as e:
                    ctx.failing('%s output is not well-formed YAML: %s' % (lab, str(e)[:200]), dict(info, mode=lab), found=True)
        for lab in ('o-json', 'o-json-all'):
            docs = split_json_docs(runs[lab][1].decode())
            reps = [x for x in docs if isinstance(x, dict) and 'not_compliant' in x]
            if len(reps) != 1:
                ctx.failing('%s: expected one JSON report, found %d' % (lab, len(reps)), dict(info, mode=lab), found=True)
            else:
                views[lab] = sets_from_report(reps[0])
        docs = split_json_docs(runs['print-json'][1].decode())
        recs = [x for x in docs if isinstance(x, dict) and 'container' in x]
        if len(recs) != 1:
            ctx.failing('--print-json: expected one record tree, found %d' % len(recs), dict(info, mode='print-json'), found=True)
        else:
            views['print-json'] = sets_from_record(recs[0])
        for lab in ('summary-all', 'verbose', 'stdin-summary-all', 'payload-summary-all', 'o-json-all'):
            rf = 'RULES_STDIN[1]' if lab.startswith('payload') else 'r.guard'
            views[lab + ':table'] = sets_from_summary(runs[lab][1].decode('utf-8', 'replace'), rf)
        for lab, only in (('summary-pass', 'PASS'), ('summary-fail', 'FAIL'), ('summary-skip', 'SKIP')):
            v = sets_from_summary(runs[lab][1].decode('utf-8', 'replace'), 'r.guard')
            if v[only] != ref_table(ref, only):
                ctx.failing('-S %s lists %s, the structured report has %s' % (only.lower(), v[only], ref_table(ref, only)), dict(info, mode=lab), found=True)
            for other in ('PASS', 'FAIL', 'SKIP'):
                if other != only and v[other]:
                    ctx.failing('-S %s also lists %s rules' % (only.lower(), other), dict(info, mode=lab), found=True)
        v = sets_from_summary(runs['summary-none'][1].decode('utf-8', 'replace'), 'r.guard')
        if v['PASS'] or v['FAIL'] or v['SKIP']:
            ctx.failing('-S none still prints a summary table', dict(info, mode='summary-none'), found=True)
        # library entry point
        lr = lib[k].get('res') if isinstance(lib[k], dict) else None
        if isinstance(lr, dict) and isinstance(lr.get('rc_plain'), dict) and isinstance(lr['rc_plain'].get('ok'), dict):
            views['run_checks'] = sets_from_report(lr['rc_plain']['ok'])
        elif isinstance(lr, dict) and 'rc_plain' in lr:
            ctx.failing('run_checks(verbose=false) did not return a well-formed JSON report: %s' % str(lr['rc_plain'])[:200], dict(info, mode='run_checks'), found=True)
        if isinstance(lr, dict) and isinstance(lr.get('rc_verbose'), dict) and isinstance(lr['rc_verbose'].get('ok'), dict):
            views['run_checks-verbose'] = sets_from_record(lr['rc_verbose']['ok'])
        for lab, v in views.items():
            views_total += 1
            cmpv = dict(v)
            want = dict(ref)
            if lab.endswith(':table'):
                want = {'PASS': ref_table(ref, 'PASS'), 'FAIL': ref_table(ref, 'FAIL'), 'SKIP': ref_table(ref, 'SKIP'), 'status': ref['status']}
                if not (want['PASS'] or want['FAIL'] or want['SKIP']):
                    want['status'] = None     # nothing to list: no header line
            if cmpv != want:
                ctx.failing('%s reports %s, --structured -o json reports %s' % (lab, cmpv, want), dict(info, mode=lab), found=True)
        # SARIF: well-formed, one result per reported failing check
        try:
            sj = json.loads(runs['s-sarif'][1].decode())
            nres = sum(len(r.get('results', [])) for r in sj.get('runs', []))
            full = json.loads(ref_out.decode())[0]
            want = sum(count_checks(x) for x in full['not_compliant']) if full['status'] == 'FAIL' else 0
            if nres != want:
                ctx.failing('SARIF has %d results for %d reported failing checks' % (nres, want), dict(info, mode='s-sarif'), found=True)
        except ValueError as e:
            ctx.failing('SARIF output is not well-formed JSON: %s' % e, dict(info, mode='s-sarif'), found=True)
        # JUnit: well-formed, the case mark agrees with the verdict of the (rules file, data file) evaluation
        try:
            root = ET.fromstring(runs['s-junit'][1].decode())
            cases = list(root.iter('testcase'))
            if len(cases) != 1:
                ctx.failing('JUnit has %d test cases for one rules file and one data file' % len(cases), dict(info, mode='s-junit'), found=True)
            else:
                tc = cases[0]
                mark = 'FAIL' if tc.find('failure') is not None else ('ERROR' if tc.find('error') is not None else
                                                                      ('SKIP' if (tc.get('status') == 'skip' or tc.find('skipped') is not None) else 'PASS'))
                if mark != ref['status']:
                    ctx.failing('JUnit marks the case %s, the file status is %s' % (mark, ref['status']), dict(info, mode='s-junit', xml=runs['s-junit'][1][:600].decode('utf-8', 'replace')), found=True)
        except ET.ParseError as e:
            ctx.failing('JUnit output is not well-formed XML: %s' % e, dict(info, mode='s-junit'), found=True)
    ctx.coverage['cross_scenarios'] = n + len(hand)
    ctx.coverage['cross_compared'] = compared
    ctx.coverage['renderings_compared'] = views_total
    ctx.coverage['status_distribution'] = dist
    ctx.coverage['evaluations'] += len(jobs) + len(ops)
    ctx.sample({'rules': scen[0]['rules'], 'doc': scen[0]['doc']})
    return compared


def ref_table(ref, which):
    """what the summary table shows: a rule defined several times leaves the SKIP table when it also passed or failed"""
    if which == 'SKIP':
        return sorted(x for x in ref['SKIP'] if x not in ref['PASS'] and x not in ref['FAIL'])
    return ref[which]


def run_mixed(ctx):
    """one unparsable and one failing rules file: the exit code must not depend on the output mode or the order"""
    d = os.path.join(ctx.wd, 'mixed')
    e2e.write_files(d, {'f.guard': 'rule f { n == 12345 }\n', 'b.guard': 'rule b { n == \n', 'd.json': '{"n": 1}'})
    jobs, labels = [], []
    for order in (['f.guard', 'b.guard'], ['b.guard', 'f.guard']):
        for lab, fl in (('plain', []), ('s-json', ['--structured', '-o', 'json', '-S', 'none']), ('s-yaml', ['--structured', '-o', 'yaml', '-S', 'none']),
                        ('s-sarif', ['--structured', '-o', 'sarif', '-S', 'none']), ('s-junit', ['--structured', '-o', 'junit', '-S', 'none'])):
            jobs.append({'args': ['validate', '-r', order[0], '-r', order[1], '-d', 'd.json'] + fl, 'cwd': d})
            labels.append('%s(%s,%s)' % (lab, order[0], order[1]))
    res = e2e.run_many(jobs)
    codes = {lab: r[0] for lab, r in zip(labels, res)}
    ctx.coverage['mixed_parse_error_and_fail_exit_codes'] = codes
    if len(set(codes.values())) != 1:
        # the recorded finding is exactly this table; any other table is a new violation
        recorded = {}
        for a, b in (('f.guard', 'b.guard'), ('b.guard', 'f.guard')):
            recorded['plain(%s,%s)' % (a, b)] = 5 if b == 'b.guard' else 19           # the last non-zero code
            for m in ('s-json', 's-yaml', 's-sarif'):
                recorded['%s(%s,%s)' % (m, a, b)] = 19
            recorded['s-junit(%s,%s)' % (a, b)] = 5
        cls = 'mixed-parse-error-and-fail' if codes == recorded else 'mixed-parse-error-and-fail-other-codes'
        ctx.failing('a parse error together with a FAIL: the exit code depends on the output mode / argument order: %s' % codes,
                    {'class': cls, 'codes': codes, 'rules': ['rule f { n == 12345 }', 'rule b { n == '], 'data': '{"n": 1}'}, found=True)
    # whatever the exit code, the failing rule of the file that parses is reported by every structured run, in both orders
    for lab, r in zip(labels, res):
        if lab.startswith(('s-json', 's-yaml')):
            text = r[1].decode('utf-8', 'replace')
            if not re.search(r'\bf\b', text) or 'not_compliant' not in text:
                ctx.failing('%s: the failing rule f of the rules file that parses is missing from the report' % lab,
                            {'class': 'format-independence', 'mode': lab, 'stdout': text[:500], 'rules': ['rule f { n == 12345 }', 'rule b { n == '], 'data': '{"n": 1}'}, found=True)


def run_multi(ctx):
    """several rules files that all parse, every combination of outcomes: the exit code is the same whichever way rules and data
    are handed over and whichever output is chosen"""
    import itertools
    jobs, meta = [], []
    data = '{"x": 1, "y": 2}'
    k = 0
    for n in (2, 3):
        for combo in itertools.product('PFSE' if n == 2 else 'PFE', repeat=n):
            d = os.path.join(ctx.wd, 'multi%d' % k); k += 1
            # E: a rules file that holds only a comment (no rule at all)
            texts = [('# nothing to check here\n' if c == 'E' else 'rule f%d {\n  %s\n}\n' % (i, BODY[c])) for i, c in enumerate(combo)]
            same = k % 2 == 0            # every other scenario: one base name in different directories
            rnames = [('pol/d%d/r.guard' % i) if same else ('r%d.guard' % i) for i in range(n)]
            files = {nme: t for nme, t in zip(rnames, texts)}
            files['d.json'] = data
            e2e.write_files(d, files)
            rargs = []
            for nme in rnames:
                rargs += ['-r', nme]
            payload = json.dumps({'rules': texts, 'data': [data]}).encode()
            confs = [('files-S-all', ['validate'] + rargs + ['-d', 'd.json', '-S', 'all'], None),
                     ('files', ['validate'] + rargs + ['-d', 'd.json'], None),
                     ('files-v', ['validate'] + rargs + ['-d', 'd.json', '-v'], None),
                     ('files-o-json', ['validate'] + rargs + ['-d', 'd.json', '-o', 'json'], None),
                     ('files-s-json', ['validate'] + rargs + ['-d', 'd.json', '--structured', '-o', 'json', '-S', 'none'], None),
                     ('files-s-junit', ['validate'] + rargs + ['-d', 'd.json', '--structured', '-o', 'junit', '-S', 'none'], None),
                     ('stdin', ['validate'] + rargs, data.encode()),
                     ('stdin-s-yaml', ['validate'] + rargs + ['--structured', '-o', 'yaml', '-S', 'none'], data.encode()),
                     ('payload', ['validate', '--payload'], payload),
                     ('payload-v', ['validate', '--payload', '-v'], payload),
                     ('payload-o-yaml', ['validate', '--payload', '-o', 'yaml'], payload),
                     ('payload-s-json', ['validate', '--payload', '--structured', '-o', 'json', '-S', 'none'], payload),
                     ('payload-s-sarif', ['validate', '--payload', '--structured', '-o', 'sarif', '-S', 'none'], payload)]
            for lab, args, stdin in confs:
                j = {'args': args, 'cwd': d}
                if stdin is not None:
                    j['stdin'] = stdin
                jobs.append(j); meta.append((''.join(combo), lab))
    res = e2e.run_many(jobs)
    by, outs_by = {}, {}
    for (combo, lab), r in zip(meta, res):
        by.setdefault(combo, {})[lab] = r[0]
        outs_by.setdefault(combo, {})[lab] = r[1]
    # the rule names per status: the console tables (one block per rules file) against the combined structured report
    for combo, outs in outs_by.items():
        try:
            rep = json.loads(outs['files-s-json'].decode())[0]
            want = sets_from_report(rep)
        except Exception as e:
            ctx.failing('rules files with outcomes %s: --structured -o json is not a well-formed report: %s' % (combo, e), {'class': 'format-independence', 'combo': combo}, found=True)
            continue
        got = {'PASS': set(), 'FAIL': set(), 'SKIP': set()}
        for b in console_blocks(outs['files-S-all'].decode('utf-8', 'replace')):
            for line in b['lines']:
                m = re.match(r'^(\S+)\s+(PASS|FAIL|SKIP)$', line)
                if m:
                    got[m.group(2)].add(m.group(1).rsplit('/', 1)[-1])
        gotl = {k2: sorted(v) for k2, v in got.items()}
        wantl = {k2: sorted(set(want[k2])) for k2 in ('PASS', 'FAIL', 'SKIP')}
        if gotl != wantl:
            ctx.failing('rules files with outcomes %s: the console tables list %s, the structured report %s' % (combo, gotl, wantl),
                        {'class': 'format-independence', 'combo': combo, 'bodies': BODY, 'data': data}, found=True)
    for combo, codes in by.items():
        want = 19 if 'F' in combo else 0
        bad = {lab: c for lab, c in codes.items() if c != want}
        if bad:
            ctx.failing('rules files with outcomes %s: exit code %s expected in every mode, got %s' % (combo, want, bad),
                        {'class': 'format-independence', 'combo': combo, 'codes': codes, 'bodies': BODY, 'data': data}, found=True)
    ctx.coverage['multi_rules_scenarios'] = len(by)
    ctx.coverage['evaluations'] += len(jobs)


def console_blocks(text):
    """console output of several (rules, data) evaluations: one block per `<data file> Status = X` header"""
    blocks, cur = [], None
    for line in text.splitlines():
        m = re.match(r'^(\S.*) Status = (PASS|FAIL|SKIP)$', line)
        if m:
            cur = {'file': os.path.basename(m.group(1)), 'status': m.group(2), 'lines': []}
            blocks.append(cur)
        elif cur is not None:
            cur['lines'].append(line)
    for b in blocks:
        b['tables'] = sets_from_summary('\n'.join(['x Status = %s' % b['status']] + b['lines']), 'r.guard')
    return blocks


def run_multi_data(ctx):
    """ONE rules file against SEVERAL data files with every combination and order of per-file outcomes: every rendering must
    give, for every data file, the status and rule lists of that file evaluated alone (a per-file line must not carry the
    cumulative status of the run)"""
    import itertools
    rules = 'rule t when x exists {\n  x == 1 <<wrong x>>\n}\nrule u {\n  y !exists or y == 2\n}\n'
    docs = {'P': {'x': 1, 'y': 2}, 'F': {'x': 2}, 'S': {'z': 1, 'y': 2}, 'G': {'x': 1, 'y': 3}}
    want = {'P': ('PASS', ['t', 'u'], [], []), 'F': ('FAIL', ['u'], ['t'], []), 'S': ('PASS', ['u'], [], ['t']), 'G': ('FAIL', ['t'], ['u'], [])}
    jobs, meta = [], []
    k = 0
    combos = [c for n in (2, 3) for c in itertools.product('PFSG', repeat=n)]
    if ctx.tier != 'thorough':
        combos = [c for c in combos if len(c) == 2] + [c for i, c in enumerate(c for c in combos if len(c) == 3) if i % 4 == ctx.seed % 4]
    for combo in combos:
        d = os.path.join(ctx.wd, 'mdata%d' % k); k += 1
        files = {'r.guard': rules}
        dargs = []
        for i, c in enumerate(combo):
            files['data/d%d.json' % i] = json.dumps(docs[c])
            dargs += ['-d', 'data/d%d.json' % i]
        e2e.write_files(d, files)
        base = ['validate', '-r', 'r.guard'] + dargs
        for lab, extra in (('summary-all', ['-S', 'all']), ('verbose', ['-v', '-S', 'all']), ('o-json-all', ['-o', 'json', '-S', 'all']), ('o-yaml-all', ['-o', 'yaml', '-S', 'all']),
                           ('o-json', ['-o', 'json', '-S', 'none']), ('s-json', ['--structured', '-o', 'json', '-S', 'none']), ('s-yaml', ['--structured', '-o', 'yaml', '-S', 'none']),
                           ('s-junit', ['--structured', '-o', 'junit', '-S', 'none']), ('dir', None)):
            args = base + extra if extra is not None else ['validate', '-r', 'r.guard', '-d', 'data', '-S', 'all']
            jobs.append({'args': args, 'cwd': d}); meta.append((combo, lab))
    # the same document reached twice (named twice; through its directory and by name): every rendering reports it twice
    dup_jobs = []
    for oc in 'FG':
        dd = os.path.join(ctx.wd, 'mdup' + oc)
        e2e.write_files(dd, {'r.guard': rules, 'data/d0.json': json.dumps(docs[oc]), 'data/d1.json': json.dumps(docs['P'])})
        for dargs in (['-d', 'data/d0.json', '-d', 'data/d0.json'], ['-d', 'data', '-d', 'data/d0.json'], ['-d', 'data/d0.json', '-d', 'data']):
            for lab, extra in (('s-json', ['--structured', '-o', 'json', '-S', 'none']), ('s-sarif', ['--structured', '-o', 'sarif', '-S', 'none']),
                               ('s-junit', ['--structured', '-o', 'junit', '-S', 'none'])):
                dup_jobs.append((oc, tuple(dargs), lab, {'args': ['validate', '-r', 'r.guard'] + dargs + extra, 'cwd': dd}))
    dres = e2e.run_many([j for _, _, _, j in dup_jobs])
    dby = {}
    for (oc, dargs, lab, _), r in zip(dup_jobs, dres):
        dby.setdefault((oc, dargs), {})[lab] = r
    for (oc, dargs), runs in dby.items():
        info = {'class': 'format-independence', 'rules': rules, 'data_args': list(dargs), 'outcome': oc}
        try:
            reps = json.loads(runs['s-json'][1].decode())
            nwant = sum(sum(count_checks(x) for x in fr['not_compliant']) for fr in reps if fr['status'] == 'FAIL')
            sj = json.loads(runs['s-sarif'][1].decode())
            nres = sum(len(r_.get('results', [])) for r_ in sj.get('runs', []))
            if nres != nwant:
                ctx.failing('a document reached twice (%s): SARIF has %d results for %d failing checks reported by --structured -o json' % (list(dargs), nres, nwant), dict(info, mode='s-sarif'), found=True)
            root = ET.fromstring(runs['s-junit'][1].decode())
            nsuites = len(list(root.iter('testsuite')))
            if nsuites != len(reps):
                ctx.failing('a document reached twice (%s): JUnit has %d test suites for %d file reports of --structured -o json' % (list(dargs), nsuites, len(reps)), dict(info, mode='s-junit'), found=True)
        except Exception as e:
            ctx.failing('a document reached twice (%s): a structured output is not well-formed: %s' % (list(dargs), str(e)[:200]), info, found=True)
    res = e2e.run_many(jobs)
    by = {}
    for (combo, lab), r in zip(meta, res):
        by.setdefault(combo, {})[lab] = r
    n = 0
    for combo, runs in by.items():
        n += 1
        info = {'class': 'format-independence', 'rules': rules, 'data_files': [docs[c] for c in combo], 'outcomes': ''.join(combo)}
        code = 19 if any(want[c][0] == 'FAIL' for c in combo) else 0
        for lab, (c, so, se) in runs.items():
            if c != code:
                ctx.failing('data files with outcomes %s: %s exits %s, expected %s' % (''.join(combo), lab, c, code), dict(info, mode=lab), found=True)
        expected = [('d%d.json' % i, want[c]) for i, c in enumerate(combo)]
        for lab in ('summary-all', 'verbose', 'o-json-all', 'o-yaml-all', 'dir'):
            bl = console_blocks(runs[lab][1].decode('utf-8', 'replace'))
            got = sorted((b['file'], b['status'], tuple(b['tables']['PASS']), tuple(b['tables']['FAIL']), tuple(b['tables']['SKIP'])) for b in bl)
            exp = sorted((f, w[0], tuple(sorted(w[1])), tuple(sorted(w[2])), tuple(sorted(w[3]))) for f, w in expected)
            if got != exp:
                ctx.failing('data files with outcomes %s: the console output (%s) shows %s per file, each file alone gives %s' % (''.join(combo), lab, got, exp), dict(info, mode=lab), found=True)
        try:
            for lab in ('s-json', 's-yaml'):
                reps = json.loads(runs[lab][1].decode()) if lab == 's-json' else (yaml.safe_load(runs[lab][1].decode()) if yaml is not None else None)
                if reps is None:
                    continue
                got = sorted((os.path.basename(fr['name']), fr['status'], tuple(sets_from_report(fr)['PASS']), tuple(sets_from_report(fr)['FAIL']), tuple(sets_from_report(fr)['SKIP'])) for fr in reps)
                exp = sorted((f, w[0], tuple(sorted(w[1])), tuple(sorted(w[2])), tuple(sorted(w[3]))) for f, w in expected)
                if got != exp:
                    ctx.failing('data files with outcomes %s: %s reports %s per file, each file alone gives %s' % (''.join(combo), lab, got, exp), dict(info, mode=lab), found=True)
            docs_j = [x for x in split_json_docs(runs['o-json'][1].decode()) if isinstance(x, dict) and 'not_compliant' in x]
            got = sorted((os.path.basename(fr['name']), fr['status']) for fr in docs_j)
            if got != sorted((f, w[0]) for f, w in expected):
                ctx.failing('data files with outcomes %s: -o json reports %s per file' % (''.join(combo), got), dict(info, mode='o-json'), found=True)
            root = ET.fromstring(runs['s-junit'][1].decode())
            marks = []
            for suite in root.iter('testsuite'):
                for tc in suite.iter('testcase'):
                    mark = 'FAIL' if tc.find('failure') is not None else ('ERROR' if tc.find('error') is not None else
                                                                          ('SKIP' if (tc.get('status') == 'skip' or tc.find('skipped') is not None) else 'PASS'))
                    marks.append((os.path.basename(suite.get('name') or ''), mark, suite.get('failures'), suite.get('errors')))
            expm = sorted((f, w[0], '1' if w[0] == 'FAIL' else '0', '0') for f, w in expected)
            if sorted(marks) != expm:
                ctx.failing('data files with outcomes %s: JUnit marks (suite, case mark, failures, errors) %s, each file alone gives %s' % (''.join(combo), sorted(marks), expm), dict(info, mode='s-junit'), found=True)
        except Exception as e:
            ctx.failing('data files with outcomes %s: a structured output is not well-formed: %s' % (''.join(combo), str(e)[:200]), info, found=True)
    ctx.coverage['multi_data_scenarios'] = n
    ctx.coverage['evaluations'] += len(jobs)


def run_entry_spellings(ctx):
    """(a) the same document text through the three entry points (a file, stdin, a --payload entry): block YAML whose top-level
    collection is indented, leading blank lines / comment lines / a document marker, trailing blanks, CRLF - the verdict must not
    depend on the entry point; (b) documents of the shapes the console reporters special-case (a Terraform plan: `resource_changes`
    and no `Resources`; a CloudFormation template; neither) with rules that all PASS or SKIP, and with a failing rule: plain
    `-o json` / `-o yaml` must carry the same rule sets as --structured."""
    import yaml
    rules = 'rule has_colors {\n  colors[*] == /^(blue|green)$/\n}\nrule sized when size exists {\n  size <= 10\n}\n'
    rules_seq = 'rule all_known {\n  this[*] == /^(blue|green)$/\n}\n'
    texts = {
        'flush-mapping': ('colors:\n  - blue\n  - green\nsize: 5\n', rules),
        'indented-mapping': ('  colors:\n    - blue\n    - green\n  size: 5\n', rules),
        'indented-sequence': ('  - blue\n  - green\n', rules_seq),
        'leading-blank-lines': ('\n\n  colors:\n    - blue\n  size: 50\n', rules),
        'leading-comment': ('# a comment\ncolors:\n  - blue\nsize: 5\n', rules),
        'document-marker': ('---\n  colors: [blue]\n  size: 5\n', rules),
        'trailing-blanks': ('colors: [blue, red]   \nsize: 5   \n\n\n', rules),
        'crlf': ('colors:\r\n  - blue\r\nsize: 50\r\n', rules),
        'json-indented': ('   {"colors": ["blue"],\n      "size": 5}\n', rules),
    }
    jobs, meta = [], []
    for lab, (text, rl) in texts.items():
        d = os.path.join(ctx.wd, 'es_' + lab)
        e2e.write_files(d, {'r.guard': rl, 'd.yaml': text})
        for mlab, flags in (('s-json', ['--structured', '-o', 'json', '-S', 'none']), ('console', ['-S', 'all'])):
            jobs.append({'args': ['validate', '-r', 'r.guard', '-d', 'd.yaml'] + flags, 'cwd': d}); meta.append(('entry', lab, mlab, 'file'))
            jobs.append({'args': ['validate', '-r', 'r.guard'] + flags, 'cwd': d, 'stdin': text.encode()}); meta.append(('entry', lab, mlab, 'stdin'))
            jobs.append({'args': ['validate', '--payload'] + flags, 'cwd': d, 'stdin': json.dumps({'rules': [rl], 'data': [text]}).encode()}); meta.append(('entry', lab, mlab, 'payload'))
    shapes = {
        'tf-plan': {'resource_changes': [{'address': 'aws_s3_bucket.b', 'type': 'aws_s3_bucket', 'change': {'after': {'size': 5}}}], 'x': 1},
        'cfn': {'Resources': {'b': {'Type': 'AWS::S3::Bucket', 'Properties': {'size': 5}}}, 'x': 1},
        'plain': {'x': 1, 'items': [{'size': 5}]},
    }
    rsets = {'all-pass-or-skip': 'rule p {\n  x == 1\n}\nrule s when x == 2 {\n  x == 3\n}\n',
             'one-fails': 'rule p {\n  x == 1\n}\nrule f {\n  x == 2 <<wrong x>>\n}\nrule s when x == 2 {\n  x == 3\n}\n',
             'all-skip': 'rule s when x == 2 {\n  x == 3\n}\n'}
    for slab, doc in shapes.items():
        for rlab, rl in rsets.items():
            d = os.path.join(ctx.wd, 'sh_%s_%s' % (slab, rlab))
            e2e.write_files(d, {'r.guard': rl, 'd.json': json.dumps(doc, indent=1)})
            for mlab, flags in (('s-json', ['--structured', '-o', 'json', '-S', 'none']), ('o-json', ['-o', 'json', '-S', 'none']), ('o-yaml', ['-o', 'yaml', '-S', 'none']),
                                ('o-json-all', ['-o', 'json', '-S', 'all'])):
                jobs.append({'args': ['validate', '-r', 'r.guard', '-d', 'd.json'] + flags, 'cwd': d}); meta.append(('shape', slab + '/' + rlab, mlab, 'file'))
    res = dict(zip(meta, e2e.run_many(jobs)))
    n = 0
    for lab in texts:
        for mlab in ('s-json', 'console'):
            n += 1
            fc, fo, fe = res[('entry', lab, mlab, 'file')]
            fsets = None
            if mlab == 's-json' and fc in (0, 19):
                try:
                    fsets = sets_from_report(json.loads(fo.decode())[0])
                except Exception:
                    fsets = None
            for entry in ('stdin', 'payload'):
                c, so, se = res[('entry', lab, mlab, entry)]
                info = {'class': 'entry-point', 'layout': lab, 'mode': mlab, 'entry': entry, 'text': texts[lab][0], 'rules': texts[lab][1],
                        'stdout': so[:400].decode('utf-8', 'replace'), 'stderr': se[-300:].decode('utf-8', 'replace')}
                if c != fc:
                    ctx.failing('document text (%s) given as a file exits %s, the same text through %s exits %s (%s)' % (lab, fc, entry, c, mlab), info, found=True)
                elif fsets is not None:
                    try:
                        s2 = sets_from_report(json.loads(so.decode())[0])
                    except Exception as e:
                        ctx.failing('%s (%s): output is not a well-formed report: %s' % (entry, lab, e), info, found=True)
                        continue
                    if s2 != fsets:
                        ctx.failing('document text (%s): rule sets %s from a file, %s through %s' % (lab, fsets, s2, entry), info, found=True)
    for slab in shapes:
        for rlab in rsets:
            n += 1
            key = slab + '/' + rlab
            c0, so0, se0 = res[('shape', key, 's-json', 'file')]
            try:
                ref = sets_from_report(json.loads(so0.decode())[0])
            except Exception as e:
                ctx.failing('--structured -o json on a %s document is not a well-formed report: %s' % (slab, e), {'class': 'format-independence', 'shape': key}, found=True)
                continue
            for mlab in ('o-json', 'o-yaml', 'o-json-all'):
                c, so, se = res[('shape', key, mlab, 'file')]
                info = {'class': 'format-independence', 'shape': key, 'mode': mlab, 'rules': rsets[rlab], 'doc': shapes[slab], 'stdout': so[:500].decode('utf-8', 'replace')}
                if c != c0:
                    ctx.failing('%s on a %s document exits %s, --structured -o json exits %s' % (mlab, key, c, c0), info, found=True)
                    continue
                text = so.decode('utf-8', 'replace')
                try:
                    if mlab == 'o-yaml':
                        recs = [x for x in yaml.safe_load_all(text) if x is not None]
                    else:
                        recs = split_json_docs(text)
                    reps = [x for x in recs if isinstance(x, dict) and 'not_compliant' in x]
                    recs = [x for x in recs if isinstance(x, dict) and ('container' in x or 'children' in x)]
                    got = sets_from_report(reps[0]) if reps else (sets_from_record(recs[0]) if recs else None)
                except Exception as e:
                    got = None
                if got is None:
                    ctx.failing('%s on a %s document prints no report (the file status and the rule sets go unreported)' % (mlab, key), info, found=True)
                elif any(got[k] != ref[k] for k in ('PASS', 'FAIL', 'SKIP')) or (got['status'] and got['status'] != ref['status']):
                    ctx.failing('%s on a %s document: rule sets %s, --structured -o json %s' % (mlab, key, got, ref), info, found=True)
    ctx.coverage['entry_and_shape_groups'] = n
    ctx.coverage['evaluations'] += len(jobs)
    return n


def run(ctx):
    ctx.build(cli=True)
    pr = ctx.proofs('C07')
    thorough = ctx.tier == 'thorough'
    n = run_cross(ctx, 300 if thorough else 36, thorough)
    run_mixed(ctx)
    run_multi(ctx)
    run_multi_data(ctx)
    run_entry_spellings(ctx)
    ctx.coverage['distinct_nontrivial'] = n
    ctx.coverage['rule'] = ('scenario = generated rules file x document (JSON-compatible), run in 18 configurations (console summary with -S all/pass/fail/skip/none, '
                            '-v, -p, -o json, -o yaml, --structured json/yaml/sarif/junit, stdin, --payload) and through run_checks (verbose and not); distinct = '
                            'scenarios whose evaluation succeeds')
    ctx.coverage['trusted_base'] = [
        'Coq 8.16.1 kernel (coqc); no axioms',
        'Report.v / Cli.v (modelled, not verified; tied by the C09 and C06 correspondences)',
        'python parsers of the console summary, JSON, YAML (PyYAML), SARIF and JUnit outputs',
    ]
    ctx.assumptions = ['documents use JSON-compatible scalars (the two loaders agree there: C11)',
                       'a rule name defined several times may legitimately appear in two lists; the console table drops such a name from its SKIP table']
    if not pr['ok']:
        ctx.failing('proof obligations of Props/C07.v no longer check: %s' % (pr.get('problems') or pr.get('log', '')[-500:]),
                    {'class': 'proof', 'theorems': pr['theorems']}, found=False)


def replay(ctx, path):
    j = json.load(open(path))
    for v in j.get('violations', []):
        print(json.dumps(v, indent=1)[:3000])
    return 0
