(* MkPure.v (generated from TermPure.v by renaming) — the value layer never answers the panic site P_map_key_missing: comparisons, the operator layer of operators.rs and the
   built-in functions are total functions of their arguments (they answer a value, an error, a panic site or
   "oracle miss", never OutOfFuel). Used by TermProps.v (termination of the evaluator). *)
From GV.Model Require Import SEval.
From GV.Proofs Require Import RefineOps.

Definition nk {A} (o : outcome A) : Prop := o <> Panic P_map_key_missing.

Lemma nk_done {A} (a : A) : nk (Done a).
Proof. discriminate. Qed.
Lemma nk_err {A} e : nk (@Err A e).
Proof. discriminate. Qed.
Lemma nk_panic {A} p : p <> P_map_key_missing -> nk (@Panic A p).
Proof. intros H E. inversion E. contradiction. Qed.
Lemma nk_oof {A} : nk (@OutOfFuel A).
Proof. discriminate. Qed.
Lemma nk_unknown {A} : nk (@Unknown A).
Proof. discriminate. Qed.

Lemma nk_obind {A B} (m : outcome A) (f : A -> outcome B) : nk m -> (forall a, nk (f a)) -> nk (obind m f).
Proof. intros Hm Hf. unfold nk in *. destruct m; cbn; try discriminate; [apply Hf|intros E; apply Hm; inversion E; reflexivity]. Qed.

Lemma nk_omapM {A B} (f : A -> outcome B) l : (forall x, nk (f x)) -> nk (omapM f l).
Proof.
  intros Hf. induction l as [|x l IH]; cbn [omapM]; [apply nk_done|].
  apply nk_obind; [apply Hf|]. intros y. apply nk_obind; [exact IH|]. intros ys. apply nk_done.
Qed.

Ltac nk_step :=
  first
  [ assumption
  | apply nk_done | apply nk_err | (apply nk_panic; discriminate) | apply nk_unknown | apply nk_oof
  | apply nk_obind; [|intros ?]
  | apply nk_omapM; intros ?
  | match goal with |- nk (match ?x with _ => _ end) => destruct x end
  | match goal with |- nk (if ?x then _ else _) => destruct x end ].
Ltac nks := repeat nk_step.

Section WithRegex.
Variable re : re_oracle.

Lemma nk_regex_cmp_eq r s : nk (regex_cmp_eq re r s).
Proof. unfold regex_cmp_eq. nks. Qed.
Lemma nk_regex_partial_eq r s : nk (regex_partial_eq re r s).
Proof. unfold regex_partial_eq. nks. Qed.

Lemma nk_cmp_with f a b : nk (cmp_with f a b).
Proof. unfold cmp_with. nks. Qed.

Lemma nk_compare_eq a : forall b, nk (compare_eq re a b).
Proof.
  induction a as [p|p s|p s|p b0|p z|p f|p c|p l IH|p ks vals IH|p lo hi i|p lo hi i|p lo hi i] using pv_ind'; intros b;
    destruct b; cbn [compare_eq]; try (nks; fail); try apply nk_regex_cmp_eq.
  - (* lists *)
    destruct (Nat.eqb (List.length l) (List.length l0)); [|apply nk_done].
    revert l0. induction IH as [|x l Hx _ IHl]; intros l0; [destruct l0; apply nk_done|].
    destruct l0 as [|y l0]; [apply nk_done|]. apply nk_obind; [apply Hx|]. intros e. destruct e; [apply IHl|apply nk_done].
  - (* maps *)
    destruct (Nat.eqb (List.length vals) (List.length vals0)); [|apply nk_done].
    induction vals as [|[k v] vals IHv]; [apply nk_done|]. cbn [map] in IH. inversion IH as [|? ? Hv Hrest]; subst.
    destruct (map_get k vals0); [|apply nk_done]. apply nk_obind; [apply Hv|]. intros e. destruct e; [apply IHv; exact Hrest|apply nk_done].
Qed.

Lemma nk_partial_eq a : forall b, nk (partial_eq re a b).
Proof.
  induction a as [p|p s|p s|p b0|p z|p f|p c|p l IH|p ks vals IH|p lo hi i|p lo hi i|p lo hi i] using pv_ind'; intros b;
    destruct b; cbn [partial_eq]; try (nks; fail); try apply nk_regex_partial_eq.
  - destruct (Nat.eqb (List.length l) (List.length l0)); [|apply nk_done].
    revert l0. induction IH as [|x l Hx _ IHl]; intros l0; [destruct l0; apply nk_done|].
    destruct l0 as [|y l0]; [apply nk_done|]. apply nk_obind; [apply Hx|]. intros e. destruct e; [apply IHl|apply nk_done].
  - destruct (Nat.eqb (List.length vals) (List.length vals0)); [|apply nk_done].
    induction vals as [|[k v] vals IHv]; [apply nk_done|]. cbn [map] in IH. inversion IH as [|? ? Hv Hrest]; subst.
    destruct (map_get k vals0); [|apply nk_done]. apply nk_obind; [apply Hv|]. intros e. destruct e; [apply IHv; exact Hrest|apply nk_done].
Qed.

Lemma nk_contains_pv l x : nk (contains_pv re l x).
Proof. induction l as [|y l IH]; cbn [contains_pv]; [apply nk_done|]. apply nk_obind; [apply nk_partial_eq|]. intros e. destruct e; [apply nk_done|exact IH]. Qed.

Lemma nk_not_contained l other : nk (not_contained re l other).
Proof. induction l as [|x l IH]; cbn [not_contained]; [apply nk_done|]. apply nk_obind; [apply nk_contains_pv|]. intros c. apply nk_obind; [exact IH|]. intros r. apply nk_done. Qed.

Lemma nk_match_value cmpf l r : nk (cmpf l r) -> nk (match_value cmpf l r).
Proof. intros H. unfold match_value. destruct (cmpf l r) as [[]|[]| | |]; try discriminate. intros E; apply H; inversion E; reflexivity. Qed.

Lemma nk_try_cmp cmpf l r : nk (cmpf l r) -> nk (try_cmp cmpf l r).
Proof. intros H. unfold try_cmp. destruct (cmpf l r) as [b|[]| | |]; try discriminate. intros E; apply H; inversion E; reflexivity. Qed.

Lemma nk_contained_in l r : nk (contained_in re l r).
Proof.
  unfold contained_in.
  repeat first [ apply nk_contains_pv | apply nk_not_contained | apply nk_match_value, nk_compare_eq | nk_step ].
Qed.

Lemma nk_common_compare cmpf lhs rhs : (forall a b, nk (cmpf a b)) -> nk (common_compare cmpf lhs rhs).
Proof. intros H. unfold common_compare. repeat first [apply nk_match_value, H | nk_step]. Qed.

Lemma nk_in_compare lhs rhs : nk (in_compare re lhs rhs).
Proof.
  unfold in_compare.
  destruct (is_literal lhs) as [l|], (is_literal rhs) as [r|];
    try (repeat first [ apply nk_contained_in | apply nk_not_contained | nk_step ]; fail).
  apply nk_obind; [|intros ?; apply nk_done].
  generalize (selected_values lhs) as lv. generalize (selected_values rhs) as rv. intros rv lv.
  induction lv as [|x lv IH]; [apply nk_done|].
  cbn -[contained_in].
  apply nk_obind.
  - clear IH. induction rv as [|y rv IHr]; [apply nk_done|].
    cbn -[contained_in].
    apply nk_obind; [apply nk_contained_in|]. intros c. destruct (is_success c); [apply nk_done|exact IHr].
  - intros found. apply nk_obind; [exact IH|]. intros d. apply nk_done.
Qed.

Lemma nk_eq_compare lhs rhs : nk (eq_compare re lhs rhs).
Proof.
  unfold eq_compare.
  repeat first [ apply nk_match_value, nk_compare_eq | apply nk_not_contained | nk_step ].
Qed.

Lemma nk_op_compare op lhs rhs : nk (op_compare re op lhs rhs).
Proof.
  unfold op_compare.
  repeat first [ apply nk_eq_compare | apply nk_in_compare | apply nk_common_compare; intros ? ?; apply nk_cmp_with | nk_step ].
Qed.

Lemma nk_negate_result op n m e : nk (negate_result re op n m e).
Proof. unfold negate_result, reverse_diff. repeat first [apply nk_not_contained | nk_step]. Qed.

Theorem nk_cmp_compare c lhs rhs : nk (cmp_compare re c lhs rhs).
Proof. unfold cmp_compare. repeat first [apply nk_op_compare | apply nk_negate_result | nk_step]. Qed.

Lemma nk_not_compare cmpf inv l r : nk (cmpf l r) -> nk (not_compare cmpf inv l r).
Proof. intros H. unfold not_compare. nks. Qed.

Lemma nk_in_cmp ni l r : nk (in_cmp re ni l r).
Proof. unfold in_cmp. repeat first [apply nk_compare_eq | nk_step]. Qed.

Theorem nk_each_lhs_compare cmpf l rhs : (forall a b, nk (cmpf a b)) -> nk (each_lhs_compare cmpf l rhs).
Proof. intros H. unfold each_lhs_compare. repeat first [apply nk_try_cmp, H | nk_step]. Qed.

End WithRegex.

(* functions *)
Lemma nk_join_strings l : nk (join_strings l).
Proof.
  induction l as [|x l IH]; cbn [join_strings]; [apply nk_done|].
  destruct x as [v|v|u]; try apply nk_err; destruct v; try apply nk_err; (apply nk_obind; [exact IH|intros ?; apply nk_done]).
Qed.

Lemma nk_map_strings f args : (forall p s, nk (f p s)) -> nk (map_strings f args).
Proof. intros H. unfold map_strings. repeat first [apply H | nk_step]. Qed.

Theorem nk_call_fn name args : nk (call_fn name args).
Proof.
  unfold call_fn, fn_join, fn_to_upper, fn_to_lower, fn_substring, first_arg_value.
  destruct name;
    repeat first [ apply nk_join_strings | apply nk_map_strings; intros ? ? | nk_step
                 | match goal with |- nk (omapM ?f _) => apply nk_omapM; intros ?; unfold f end
                 | progress unfold parse_int_one, parse_bool_one, parse_str_one ].
Qed.

Lemma nk_unary_op c inverse base v : nk (base v) -> nk (unary_op c inverse base v).
Proof. intros H. unfold unary_op. nks. Qed.

Lemma nk_unary_base o base v : unary_base o = Some base -> nk (base v).
Proof.
  destruct o; cbn; intros E; inversion E; subst; unfold exists_operation, element_empty_operation, is_type_operation; nks.
Qed.

Lemma nk_retrieve_index parent i elements q : nk (retrieve_index parent i elements q).
Proof. unfold retrieve_index, abs_index. cbn. apply nk_done. Qed.
