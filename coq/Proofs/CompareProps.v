(* CompareProps.v — the algebra of the comparison kernels (C13). *)
From GV.Model Require Import Compare Operators.
From Coq Require Import Permutation.

(* ---------- ordered scalar types ---------- *)

Inductive ordered_pair : pv -> pv -> Prop :=
| op_int p q a b : ordered_pair (PInt p a) (PInt q b)
| op_str p q a b : ordered_pair (PString p a) (PString q b)
| op_float p q a b : a <> FNaN -> b <> FNaN -> ordered_pair (PFloat p a) (PFloat q b).

Lemma f64_cmp_total a b : a <> FNaN -> b <> FNaN -> exists c, f64_cmp a b = Some c.
Proof.
  destruct a as [|na|m1 e1 z1], b as [|nb|m2 e2 z2]; intros Ha Hb; try congruence; cbn;
    try (destruct na); try (destruct nb); eauto.
Qed.

Lemma ordered_pair_comparable a b : ordered_pair a b -> exists c, compare_values a b = Some c.
Proof.
  intros [p q x y|p q x y|p q x y Hx Hy]; cbn; eauto using f64_cmp_total.
Qed.

(* exactly one of <, ==, > holds; <= iff < or ==; >= iff > or == *)
Theorem trichotomy a b :
  ordered_pair a b ->
  exists lt eq gt,
    compare_lt a b = Done lt /\ cmp_with ord_eq a b = Done eq /\ compare_gt a b = Done gt /\
    ((lt = true /\ eq = false /\ gt = false) \/
     (lt = false /\ eq = true /\ gt = false) \/
     (lt = false /\ eq = false /\ gt = true)).
Proof.
  intros H. destruct (ordered_pair_comparable a b H) as [c Hc].
  unfold compare_lt, compare_gt, cmp_with. rewrite Hc.
  exists (ord_lt c), (ord_eq c), (ord_gt c). repeat split.
  destruct c; cbn; tauto.
Qed.

Theorem le_iff_lt_or_eq a b :
  ordered_pair a b ->
  exists lt eq le,
    compare_lt a b = Done lt /\ cmp_with ord_eq a b = Done eq /\ compare_le a b = Done le /\
    le = (lt || eq)%bool.
Proof.
  intros H. destruct (ordered_pair_comparable a b H) as [c Hc].
  unfold compare_lt, compare_le, cmp_with. rewrite Hc.
  exists (ord_lt c), (ord_eq c), (ord_le c). repeat split. destruct c; reflexivity.
Qed.

Theorem ge_iff_gt_or_eq a b :
  ordered_pair a b ->
  exists gt eq ge,
    compare_gt a b = Done gt /\ cmp_with ord_eq a b = Done eq /\ compare_ge a b = Done ge /\
    ge = (gt || eq)%bool.
Proof.
  intros H. destruct (ordered_pair_comparable a b H) as [c Hc].
  unfold compare_gt, compare_ge, cmp_with. rewrite Hc.
  exists (ord_gt c), (ord_eq c), (ord_ge c). repeat split. destruct c; reflexivity.
Qed.

(* the order is the numeric one on integers, the byte-lexicographic one on strings,
   and the order of the denoted dyadic rationals on finite floats *)
Theorem int_order_numeric p q a b :
  compare_lt (PInt p a) (PInt q b) = Done (a <? b)%Z /\
  compare_le (PInt p a) (PInt q b) = Done (a <=? b)%Z /\
  compare_gt (PInt p a) (PInt q b) = Done (a >? b)%Z /\
  compare_ge (PInt p a) (PInt q b) = Done (a >=? b)%Z.
Proof.
  unfold compare_lt, compare_le, compare_gt, compare_ge, cmp_with; cbn.
  unfold Z.ltb, Z.leb, Z.gtb, Z.geb. destruct (a ?= b)%Z; auto.
Qed.

Theorem string_order_lexicographic p q a b :
  compare_lt (PString p a) (PString q b) = Done (String.ltb a b) /\
  compare_le (PString p a) (PString q b) = Done (String.leb a b).
Proof.
  unfold compare_lt, compare_le, cmp_with, String.ltb, String.leb; cbn.
  destruct (String.compare a b); auto.
Qed.

(* value of a finite float as a rational: m * 2^e; comparing after scaling both to the
   smaller exponent is comparing those rationals *)
Definition scaled (m e k : Z) : Z := m * 2 ^ (e - k).
Theorem float_order_dyadic p q m1 e1 z1 m2 e2 z2 :
  let k := Z.min e1 e2 in
  compare_lt (PFloat p (FFin m1 e1 z1)) (PFloat q (FFin m2 e2 z2))
    = Done (scaled m1 e1 k <? scaled m2 e2 k)%Z.
Proof.
  unfold compare_lt, cmp_with, scaled; cbn. unfold Z.ltb.
  destruct (_ ?= _)%Z; reflexivity.
Qed.

(* ---------- is_within: the four bracket forms ---------- *)

Theorem in_range_int_iff_bounds lo hi incl x :
  is_within zcmp lo hi incl x =
  ((if N.ltb 0 (N.land incl 1) then (lo <=? x)%Z else (lo <? x)%Z) &&
   (if N.ltb 0 (N.land incl 2) then (x <=? hi)%Z else (x <? hi)%Z))%bool.
Proof.
  unfold is_within, zcmp, pcmp_le, pcmp_lt, pcmp_ge, pcmp_gt, LOWER_INCLUSIVE, UPPER_INCLUSIVE.
  destruct (N.ltb 0 (N.land incl 1)), (N.ltb 0 (N.land incl 2));
    unfold Z.leb, Z.ltb; rewrite (Z.compare_antisym x hi);
    destruct (lo ?= x)%Z, (x ?= hi)%Z; reflexivity.
Qed.

Corollary range_forms x lo hi :
  is_within zcmp lo hi 3 x = ((lo <=? x) && (x <=? hi))%bool%Z /\   (* r[lo,hi] *)
  is_within zcmp lo hi 0 x = ((lo <? x) && (x <? hi))%bool%Z /\     (* r(lo,hi) *)
  is_within zcmp lo hi 1 x = ((lo <=? x) && (x <? hi))%bool%Z /\    (* r[lo,hi) *)
  is_within zcmp lo hi 2 x = ((lo <? x) && (x <=? hi))%bool%Z.      (* r(lo,hi] *)
Proof. repeat split; rewrite in_range_int_iff_bounds; reflexivity. Qed.

Theorem in_range_float_iff_bounds lo hi incl x :
  is_within f64_cmp lo hi incl x =
  ((if N.ltb 0 (N.land incl 1) then pcmp_le (f64_cmp lo x) else pcmp_lt (f64_cmp lo x)) &&
   (if N.ltb 0 (N.land incl 2) then pcmp_ge (f64_cmp hi x) else pcmp_gt (f64_cmp hi x)))%bool.
Proof. reflexivity. Qed.

(* through the equality kernel: X in r.. and X == r.. both reach is_within *)
Theorem compare_eq_range_int re p q x lo hi incl :
  compare_eq re (PInt p x) (PRangeInt q lo hi incl) = Done (is_within zcmp lo hi incl x).
Proof. reflexivity. Qed.

(* ---------- regex: == /re/ is whatever the regex engine says about "matches somewhere" ---------- *)
Theorem regex_eq_is_oracle re p q s r b :
  re r s = ReMatch b ->
  compare_eq re (PString p s) (PRegex q r) = Done b /\
  compare_eq re (PRegex q r) (PString p s) = Done b.
Proof. intros H; cbn; unfold regex_cmp_eq; rewrite H; auto. Qed.

(* ---------- different or unordered types never compare ---------- *)

Definition ordering_type (v : pv) : option vtype :=
  match v with
  | PInt _ _ => Some TInt | PString _ _ => Some TString
  | PFloat _ _ => Some TFloat | PChar _ _ => Some TChar | _ => None
  end.

Theorem cross_type_never_ordered a b :
  (ordering_type a = None \/ ordering_type b = None \/ ordering_type a <> ordering_type b) ->
  compare_lt a b = Err ENotComparable /\ compare_le a b = Err ENotComparable /\
  compare_gt a b = Err ENotComparable /\ compare_ge a b = Err ENotComparable.
Proof.
  intros H. unfold compare_lt, compare_le, compare_gt, compare_ge, cmp_with.
  assert (Hc : compare_values a b = None).
  { destruct a, b; cbn in *; try reflexivity; destruct H as [H|[H|H]]; congruence. }
  rewrite Hc; auto.
Qed.

(* a NotComparable comparison is reported FAIL under both polarities *)
Theorem not_comparable_fails_both_polarities re c custom l r op nl nr :
  (forall x, In x (report_binary c custom (VComparison (CRNotComparable l r))) -> snd x = FAIL) /\
  negate_result re op nl nr (VComparison (CRNotComparable l r)) = Done (VComparison (CRNotComparable l r)).
Proof.
  split; [|reflexivity]. cbn. intros x [<-|[]]; reflexivity.
Qed.

Theorem match_value_not_comparable l r :
  compare_values l r = None ->
  match_value compare_lt l r = Done (VComparison (CRNotComparable l r)) /\
  match_value compare_le l r = Done (VComparison (CRNotComparable l r)) /\
  match_value compare_gt l r = Done (VComparison (CRNotComparable l r)) /\
  match_value compare_ge l r = Done (VComparison (CRNotComparable l r)).
Proof.
  intros H. unfold match_value, compare_lt, compare_le, compare_gt, compare_ge, cmp_with.
  rewrite H. auto.
Qed.

(* ---------- null and bool are not ordered (after the fix 2008b33: null <= null no longer holds) ---------- *)
Theorem unordered_types_never_ordered a b :
  (type_of a = TNull \/ type_of a = TBool) ->
  compare_lt a b = Err ENotComparable /\ compare_le a b = Err ENotComparable /\
  compare_gt a b = Err ENotComparable /\ compare_ge a b = Err ENotComparable.
Proof.
  intros H. apply cross_type_never_ordered. left.
  destruct a; cbn in *; destruct H; congruence.
Qed.

(* ---------- X in [v1..vn] iff X equals some vi ---------- *)

Theorem in_list_iff_exists_eq re l x :
  (forall y, In y l -> exists b, partial_eq re y x = Done b) ->
  exists b, contains_pv re l x = Done b /\
            (b = true <-> exists y, In y l /\ partial_eq re y x = Done true).
Proof.
  induction l as [|y l IH]; intros H.
  - exists false; split; [reflexivity|]. split; [discriminate|]. intros (y & [] & _).
  - cbn [contains_pv]. destruct (H y (or_introl eq_refl)) as [by_ Hy]. rewrite Hy; cbn [obind].
    destruct by_.
    + exists true; split; [reflexivity|]. split; [|reflexivity]. intros _. exists y; split; [left; reflexivity|assumption].
    + destruct IH as (b & Hb & Hiff). { intros z Hz. apply H. right. exact Hz. }
      exists b; split; [exact Hb|]. rewrite Hiff. split.
      * intros (z & Hz & Hz'). exists z; split; [right; exact Hz|exact Hz'].
      * intros (z & [->|Hz] & Hz'); [congruence|]. exists z; split; assumption.
Qed.
